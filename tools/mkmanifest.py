#!/usr/bin/env python3
"""Regenerates /verif/MANIFEST.json from tools/claims.json (the per-property table)."""
import json, os, sys
here = os.path.dirname(os.path.dirname(os.path.abspath(__file__)))
claims = json.load(open(os.path.join(here, "tools", "claims.json")))
props = [json.loads(l) for l in open(os.path.join(here, "properties.jsonl")) if l.strip()]
ids = [p["id"] for p in props]
checks, na = [], []
for pid in ids:
    c = claims.get(pid)
    if c is None:
        raise SystemExit("no entry for " + pid)
    if "na" in c:
        na.append({"property_id": pid, "reason": c["na"]})
        continue
    checks.append({
        "property_id": pid,
        "quick_cmd": f"./bin/check {pid} quick",
        "thorough_cmd": f"./bin/check {pid} thorough",
        "evidence_file": f"/verif/evidence/{pid}.json",
        "replay_cmd_template": "./bin/replay {path}",
        "engine": "symgo",
        "level_claimed": {"category": "model_checking", "text": c["text"], "design_ref": c.get("design_ref", "DESIGN.md §6 " + pid)},
        "level_note": c["note"],
        "technique": c.get("technique", "bounded symbolic execution of the real Go functions (go/ssa → SMT-LIB2 bit-vectors → z3), counterexamples replayed natively"),
    })
m = {
    "version": 1,
    "setup_cmd": "cd /verif/engine && GOFLAGS=-mod=mod GOPROXY=off GOSUMDB=off GOTOOLCHAIN=local PATH=/opt/veriftools/go1.26.8/bin:$PATH go build -o ../bin/symgo ./cmd/symgo",
    "hooks": {
        "guard": "verif",
        "enable": "none needed: harnesses, the sym package and the generated i18n table are injected with go/packages overlays and `go test -overlay`; /repo is never modified by a check",
        "baseline_off_cmd": "cd /repo && GOFLAGS=-mod=mod GOPROXY=off GOSUMDB=off GOTOOLCHAIN=local PATH=/opt/veriftools/go1.26.8/bin:$PATH go test -vet=off -count=1 ./internal/util/javascript/ ./tools/langlint/",
        "source_commits": [],
        "add_only": True,
    },
    "engines": [{
        "name": "symgo", "path": "/verif/engine",
        "serves_properties": [c["property_id"] for c in checks],
        "kind_free_text": "forking symbolic interpreter over golang.org/x/tools/go/ssa (built from /repo's current working tree on every run) emitting SMT-LIB2 bit-vector queries to a long-lived z3 process; native replay of every counterexample via go test -overlay",
    }],
    "checks": checks,
    "not_applicable": na,
    "notes": "exit 0 held (KNOWN-FINDING lines possible), exit 1 VIOLATION (natively reproduced), exit 2 inconclusive/broken. Known findings and fixes: /verif/known_findings.jsonl. Design: /verif/DESIGN.md.",
}
json.dump(m, open(os.path.join(here, "MANIFEST.json"), "w"), indent=1)
print(f"{len(checks)} checks, {len(na)} not applicable")
