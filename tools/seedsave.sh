#!/bin/bash
# seedsave.sh <property-id> <worktree> <name> <detected: yes|no|partial> <note>
set -eu
ID="$1"; WT="$2"; NAME="$3"; DET="$4"; NOTE="$5"
D=/verif/seeded/$NAME; mkdir -p "$D"
cp "$WT/SEED/patch.diff" "$D/patch.diff"
cp "$WT"/SEED/zz_seed_demo_test.go "$D/" 2>/dev/null || true
cp "$WT"/SEED/demo_cmd.txt "$D/" 2>/dev/null || true
python3 - "$WT/SEED/meta.json" "$D/meta.json" "$ID" "$DET" "$NOTE" <<'PY'
import json,sys
src,dst,pid,det,note=sys.argv[1:6]
try: m=json.load(open(src))
except Exception: m={}
m["property"]=pid
m["confirmed_by_me"]="demo fails with the change and passes without it; pinned suite passes with the change (tools/seedtest.sh in the agent's scratch worktree)"
m["check_run"]="git -C /repo apply patch.diff; ./bin/check %s quick; git -C /repo checkout -- ."%pid
m["detected_by_check"]=det
m["detection_note"]=note
json.dump(m,open(dst,"w"),indent=1)
PY
echo saved $D
