#!/bin/bash
# seedtest.sh <property-id> <worktree> [tier]  — confirm a seeded change and run the check against it
set -u
ID="$1"; WT="$2"; TIER="${3:-quick}"
export GOFLAGS=-mod=mod GOPROXY=off GOSUMDB=off GOTOOLCHAIN=local PATH=/opt/veriftools/go1.26.8/bin:$PATH
P="$WT/SEED/patch.diff"
[ -s "$P" ] || { echo "no patch"; exit 2; }
DEMO=$(cd "$WT" && git status --short | grep 'zz_seed_demo_test.go' | awk '{print $2}' | head -1)
PKG="./$(dirname "$DEMO")/"
T=$(mktemp -d); (cd "$WT/internal/i18n" && go run ../../tools/lang/ -c -p languages -s "$T/messages.go" >/dev/null)
echo "{\"Replace\":{\"$WT/internal/i18n/messages.go\":\"$T/messages.go\"}}" > "$T/ov.json"
cd "$WT"
echo "== pinned suite with the change"; go test -vet=off -count=1 ./internal/util/javascript/ ./tools/langlint/ 2>&1 | tail -2
echo "== demo WITH the change (must fail)"; go test -count=1 -overlay "$T/ov.json" -run 'TestSeedDemo' "$PKG" 2>&1 | tail -3
git apply -R "$P" && { echo "== demo WITHOUT the change (must pass)"; go test -count=1 -overlay "$T/ov.json" -run 'TestSeedDemo' "$PKG" 2>&1 | tail -2; git apply "$P"; }
rm -rf "$T"
echo "== check $ID $TIER against /repo + patch"
git -C /repo apply "$P" || { echo "patch does not apply to /repo"; exit 2; }
(cd /verif && ./bin/check "$ID" "$TIER" 2>&1 | grep -E "^(VIOLATION|OK|INCONCLUSIVE|KNOWN|SPURIOUS|  Verif)" | cut -c1-220 | head -12)
git -C /repo checkout -- .
git -C /repo status --short | head -3
