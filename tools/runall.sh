#!/bin/bash
# runall.sh [tier] — run every claimed check in sequence, print one line each
TIER="${1:-quick}"
cd /verif
for id in $(python3 -c "import json;print(' '.join(c['property_id'] for c in json.load(open('MANIFEST.json'))['checks']))"); do
  s=$(date +%s)
  out=$(./bin/check $id $TIER 2>&1); rc=$?
  e=$(( $(date +%s) - s ))
  echo "$id rc=$rc ${e}s $(echo "$out" | grep -E '^(OK|VIOLATION|INCONCLUSIVE|KNOWN-FINDING)' | cut -c1-110 | head -2 | tr '\n' '|')"
done
