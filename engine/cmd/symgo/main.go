// symgo: bounded symbolic execution of tucats/ego functions (go/ssa -> SMT-LIB2 -> z3).
//
//	symgo check -id C19 [-tier quick|thorough] [-repo /repo] [-verif /verif]
//
// Loads the harness files under <verif>/harness/<id>/, overlays them (and the
// sym package and the generated i18n messages) into the current /repo tree,
// builds SSA, explores every Verif* harness function, replays counterexamples
// natively, writes <verif>/evidence/<id>.json and prints VIOLATION /
// KNOWN-FINDING lines. Exit status: 0 held, 1 violation, 2 inconclusive.
package main

import (
	"bufio"
	"encoding/json"
	"flag"
	"fmt"
	"go/ast"
	"go/parser"
	"go/token"
	"os"
	"os/exec"
	"path/filepath"
	"regexp"
	"runtime"
	"runtime/pprof"
	"sort"
	"strconv"
	"strings"
	"time"

	"golang.org/x/tools/go/packages"
	"golang.org/x/tools/go/ssa"
	"golang.org/x/tools/go/ssa/ssautil"

	"verif/engine/interp"
)

type harnessFile struct {
	path     string // on disk under /verif/harness
	dir      string // /repo-relative directory it is overlaid into
	pkgName  string
	funcs    []string
	stubs    map[string]string
	sums     []string
	dropgo   []string
	includes []string // other harness-tree files overlaid into the same directory (helpers)
	extra    map[string]string // additional overlay: repo-relative target -> repo-relative source (current tree)
	replayFn map[string]string
	reuse    []string // "<ID>/<file> [Func ...]": harnesses of another property run here in panic-only mode
	panicOnly bool
	bounds   []string
	notes    []string
}

var reDirective = regexp.MustCompile(`^//verif:(\w+)\s+(.*)$`)

func parseHarness(path string) (*harnessFile, error) {
	h := &harnessFile{path: path, stubs: map[string]string{}, extra: map[string]string{}, replayFn: map[string]string{}}
	f, err := os.Open(path)
	if err != nil {
		return nil, err
	}
	defer f.Close()
	sc := bufio.NewScanner(f)
	sc.Buffer(make([]byte, 1<<20), 1<<20)
	for sc.Scan() {
		m := reDirective.FindStringSubmatch(strings.TrimSpace(sc.Text()))
		if m == nil {
			continue
		}
		arg := strings.TrimSpace(m[2])
		switch m[1] {
		case "dir":
			h.dir = arg
		case "stub":
			parts := strings.SplitN(arg, "=", 2)
			if len(parts) != 2 {
				return nil, fmt.Errorf("%s: bad stub directive %q", path, arg)
			}
			h.stubs[strings.TrimSpace(parts[0])] = strings.TrimSpace(parts[1])
		case "summarize":
			h.sums = append(h.sums, arg)
		case "dropgo":
			h.dropgo = append(h.dropgo, arg)
		case "include":
			h.includes = append(h.includes, arg)
		case "overlay":
			parts := strings.SplitN(arg, "<-", 2)
			if len(parts) != 2 {
				return nil, fmt.Errorf("%s: bad overlay directive %q", path, arg)
			}
			h.extra[strings.TrimSpace(parts[0])] = strings.TrimSpace(parts[1])
		case "reuse":
			h.reuse = append(h.reuse, arg)
		case "bound":
			h.bounds = append(h.bounds, arg)
		case "outside", "assume", "note":
			h.notes = append(h.notes, m[1]+": "+arg)
		}
	}
	fset := token.NewFileSet()
	af, err := parser.ParseFile(fset, path, nil, parser.SkipObjectResolution)
	if err != nil {
		return nil, err
	}
	h.pkgName = af.Name.Name
	for _, d := range af.Decls {
		if fd, ok := d.(*ast.FuncDecl); ok && fd.Recv == nil && strings.HasPrefix(fd.Name.Name, "Verif") && fd.Type.Params.NumFields() == 0 {
			h.funcs = append(h.funcs, fd.Name.Name)
		}
	}
	if h.dir == "" && len(h.reuse) == 0 {
		return nil, fmt.Errorf("%s: missing //verif:dir directive", path)
	}
	return h, nil
}

type knownEntry struct {
	Property string `json:"property"`
	ID       string `json:"id"`
	Status   string `json:"status"`
	What     string `json:"what"`
	Commit   string `json:"commit,omitempty"`
}

func loadKnown(path, prop string) (map[string]knownEntry, error) {
	out := map[string]knownEntry{}
	b, err := os.ReadFile(path)
	if err != nil {
		if os.IsNotExist(err) {
			return out, nil
		}
		return nil, err
	}
	for _, line := range strings.Split(string(b), "\n") {
		line = strings.TrimSpace(line)
		if line == "" || strings.HasPrefix(line, "#") {
			continue
		}
		var e knownEntry
		if err := json.Unmarshal([]byte(line), &e); err != nil {
			return nil, fmt.Errorf("known_findings: %v", err)
		}
		if e.Property == prop {
			out[e.ID] = e
		}
	}
	return out, nil
}

func goEnv() []string {
	env := os.Environ()
	env = append(env, "GOFLAGS=-mod=mod", "GOPROXY=off", "GOSUMDB=off", "GOTOOLCHAIN=local",
		"PATH=/opt/veriftools/go1.26.8/bin:"+os.Getenv("PATH"))
	return env
}

func main() {
	os.Setenv("PATH", "/opt/veriftools/go1.26.8/bin:"+os.Getenv("PATH"))
	for _, kv := range []string{"GOFLAGS=-mod=mod", "GOPROXY=off", "GOSUMDB=off", "GOTOOLCHAIN=local"} {
		k, v, _ := strings.Cut(kv, "=")
		os.Setenv(k, v)
	}
	if len(os.Args) < 2 || os.Args[1] != "check" {
		fmt.Fprintln(os.Stderr, "usage: symgo check -id <property> [-tier quick|thorough]")
		os.Exit(2)
	}
	fs := flag.NewFlagSet("check", flag.ExitOnError)
	id := fs.String("id", "", "property id")
	tier := fs.String("tier", "quick", "quick|thorough")
	repo := fs.String("repo", "/repo", "repository root")
	verif := fs.String("verif", "/verif", "verif root")
	only := fs.String("only", "", "comma-separated harness function names")
	workers := fs.Int("workers", runtime.NumCPU(), "workers")
	trace := fs.Bool("trace", false, "trace instructions")
	noReplay := fs.Bool("noreplay", false, "skip native replay/validation")
	solverKind := fs.String("solver", "z3", "z3|z3-new|cvc5")
	evOut := fs.String("evidence", "", "evidence path (default <verif>/evidence/<id>.json)")
	cpuprof := fs.String("cpuprofile", "", "write a CPU profile")
	vector := fs.String("vector", "", "debug: run the harness concretely on the inputs of this replay file")
	rfile := fs.String("replayfile", "", "re-run the recorded counterexample in this file natively against -repo and stop")
	fs.Parse(os.Args[2:])
	if *id == "" {
		fmt.Fprintln(os.Stderr, "missing -id")
		os.Exit(2)
	}
	if t := os.Getenv("VERIF_TIER"); t != "" && !flagSet(fs, "tier") {
		*tier = t
	}
	seed := 0
	if s := os.Getenv("VERIF_SEED"); s != "" {
		seed, _ = strconv.Atoi(s)
	}
	debugVector = *vector
	replayFile = *rfile
	if *cpuprof != "" {
		f, _ := os.Create(*cpuprof)
		pprof.StartCPUProfile(f)
		code := run(*id, *tier, *repo, *verif, *only, *workers, *trace, *noReplay, *solverKind, *evOut, seed)
		pprof.StopCPUProfile()
		f.Close()
		os.Exit(code)
	}
	os.Exit(run(*id, *tier, *repo, *verif, *only, *workers, *trace, *noReplay, *solverKind, *evOut, seed))
}

func flagSet(fs *flag.FlagSet, name string) bool {
	set := false
	fs.Visit(func(f *flag.Flag) {
		if f.Name == name {
			set = true
		}
	})
	return set
}

type harnessReport struct {
	Name         string              `json:"harness"`
	File         string              `json:"file"`
	Paths        map[string]int64    `json:"paths"`
	States       int64               `json:"states"`
	Steps        int64               `json:"ssa_instructions"`
	Forks        int64               `json:"forks"`
	Queries      map[string]int      `json:"queries"`
	SolverS      float64             `json:"solver_s"`
	WallS        float64             `json:"wall_s"`
	Asserts      int64               `json:"assertions_checked"`
	Proved       int64               `json:"assertions_unsat"`
	DomainDecided int64              `json:"branches_decided_by_byte_domains"`
	Reach        map[string]bool     `json:"reach_witnesses"`
	Inconclusive map[string]int      `json:"inconclusive,omitempty"`
	Violations   int                 `json:"violations"`
	Known        []string            `json:"known_findings_seen,omitempty"`
	Summaries    map[string]int      `json:"summaries,omitempty"`
	Bounds       []string            `json:"bounds,omitempty"`
	Samples      []interp.PathSample `json:"samples,omitempty"`
}

type replayRun struct {
	Harness string            `json:"harness"`
	Inputs  map[string]uint64 `json:"inputs"`
	// bookkeeping
	purpose  string // violation | known | validate
	viol     *interp.Violation
	knownID  string
	observed []interp.Observation
	dir      string
	result   string
	out      []string
}

var debugVector string
var replayFile string

func run(id, tier, repo, verif, only string, workers int, trace, noReplay bool, solverKind, evOut string, seed int) int {
	start := time.Now()
	if evOut == "" {
		evOut = filepath.Join(verif, "evidence", id+".json")
	}
	os.MkdirAll(filepath.Dir(evOut), 0o755)
	os.Remove(evOut)
	fail := func(format string, a ...any) int {
		msg := fmt.Sprintf(format, a...)
		fmt.Printf("INCONCLUSIVE property=%s %s\n", id, msg)
		writeEvidence(evOut, id, tier, seed, start, nil, nil, []string{msg}, nil, 0, 0, nil)
		return 2
	}
	hdir := filepath.Join(verif, "harness", id)
	files, _ := filepath.Glob(filepath.Join(hdir, "*.go"))
	if len(files) == 0 {
		return fail("no harness files in %s", hdir)
	}
	var hfs []*harnessFile
	var bounds0, notes0 []string
	for _, f := range files {
		if strings.HasSuffix(f, "_native.go") {
			continue
		}
		h, err := parseHarness(f)
		if err != nil {
			return fail("%v", err)
		}
		for _, r := range h.reuse {
			fields := strings.Fields(r)
			matches, _ := filepath.Glob(filepath.Join(verif, "harness", fields[0]))
			if len(matches) == 0 {
				return fail("reuse %s: no such harness file", r)
			}
			for _, m := range matches {
				h2, err := parseHarness(m)
				if err != nil {
					return fail("reuse %s: %v", r, err)
				}
				h2.panicOnly = true
				h2.bounds, h2.notes = nil, nil
				if len(fields) > 1 && len(h2.funcs) > 0 {
					var keep []string
					for _, f := range h2.funcs {
						for _, want := range fields[1:] {
							if f == want {
								keep = append(keep, f)
							}
						}
					}
					h2.funcs = keep
				}
				hfs = append(hfs, h2)
			}
		}
		if h.dir == "" {
			// a pure list of reuse directives: its bounds and notes still count
			bounds0 = append(bounds0, h.bounds...)
			notes0 = append(notes0, h.notes...)
			continue
		}
		hfs = append(hfs, h)
	}
	known, err := loadKnown(filepath.Join(verif, "known_findings.jsonl"), id)
	if err != nil {
		return fail("%v", err)
	}

	scratch, err := os.MkdirTemp("", "symgo-"+id+"-")
	if err != nil {
		return fail("%v", err)
	}
	defer os.RemoveAll(scratch)

	// 1. regenerate the i18n message table from the current tree
	msgs := filepath.Join(scratch, "messages.go")
	gen := exec.Command("go", "run", "../../tools/lang/", "-c", "-p", "languages", "-s", msgs)
	gen.Dir = filepath.Join(repo, "internal", "i18n")
	gen.Env = goEnv()
	if out, err := gen.CombinedOutput(); err != nil {
		return fail("i18n generation failed: %v: %s", err, lastLines(string(out), 5))
	}

	// 2. overlay
	overlay := map[string][]byte{}
	overlayFiles := map[string]string{} // for go test -overlay
	addOverlay := func(target, src string) error {
		b, err := os.ReadFile(src)
		if err != nil {
			return err
		}
		overlay[target] = b
		overlayFiles[target] = src
		return nil
	}
	if err := addOverlay(filepath.Join(repo, "internal/i18n/messages.go"), msgs); err != nil {
		return fail("%v", err)
	}
	if err := addOverlay(filepath.Join(repo, "internal/zzverif/sym/sym.go"), filepath.Join(verif, "harness/sym/sym.go")); err != nil {
		return fail("%v", err)
	}
	dirs := map[string][]*harnessFile{}
	for _, h := range hfs {
		tgt := filepath.Join(repo, h.dir, "zz_verif_"+filepath.Base(h.path))
		if err := addOverlay(tgt, h.path); err != nil {
			return fail("%v", err)
		}
		for _, inc := range h.includes {
			src := filepath.Join(verif, "harness", inc)
			if err := addOverlay(filepath.Join(repo, h.dir, "zz_verif_"+filepath.Base(inc)), src); err != nil {
				return fail("include %s: %v", inc, err)
			}
		}
		for t, s := range h.extra {
			src := filepath.Join(repo, s)
			if rest, ok := strings.CutPrefix(s, "harness:"); ok {
				src = filepath.Join(verif, "harness", rest)
			}
			if err := addOverlay(filepath.Join(repo, t), src); err != nil {
				return fail("overlay %s: %v", t, err)
			}
		}
		dirs[h.dir] = append(dirs[h.dir], h)
	}

	// replay mode: run one recorded counterexample natively and stop
	if replayFile != "" {
		b, err := os.ReadFile(replayFile)
		if err != nil {
			return fail("%v", err)
		}
		var doc struct {
			Dir  string       `json:"dir"`
			Runs []*replayRun `json:"runs"`
		}
		if err := json.Unmarshal(b, &doc); err != nil || len(doc.Runs) == 0 {
			return fail("bad replay file %s", replayFile)
		}
		for _, r := range doc.Runs {
			r.dir, r.purpose = doc.Dir, "violation"
		}
		if err := nativeReplay(repo, scratch, overlayFiles, dirs, doc.Runs, tier); err != nil {
			fmt.Println("replay failed:", err)
			return 2
		}
		code := 0
		for _, r := range doc.Runs {
			for _, l := range r.out {
				fmt.Println(l)
			}
			fmt.Println("VERIF-RESULT:", r.result)
			if strings.HasPrefix(r.result, "reproduced") {
				code = 1
			}
		}
		return code
	}

	// 3. load + SSA
	var patterns []string
	for d := range dirs {
		patterns = append(patterns, "./"+d)
	}
	sort.Strings(patterns)
	cfg := &packages.Config{
		Mode:    packages.LoadAllSyntax,
		Dir:     repo,
		Env:     goEnv(),
		Overlay: overlay,
	}
	tLoad := time.Now()
	pkgs, err := packages.Load(cfg, patterns...)
	if err != nil {
		return fail("packages.Load: %v", err)
	}
	nerr := 0
	packages.Visit(pkgs, nil, func(p *packages.Package) {
		for _, e := range p.Errors {
			if nerr < 5 {
				fmt.Fprintf(os.Stderr, "load error: %v\n", e)
			}
			nerr++
		}
	})
	if nerr > 0 {
		return fail("package load reported %d errors (the tree does not type-check with the harness)", nerr)
	}
	prog, _ := ssautil.AllPackages(pkgs, ssa.InstantiateGenerics)
	prog.Build()
	loadS := time.Since(tLoad).Seconds()
	fmt.Fprintf(os.Stderr, "loaded %v in %.1fs\n", patterns, loadS)

	byName := interp.FunctionsByName(prog)

	// 4. explore
	onlySet := map[string]bool{}
	for _, n := range strings.Split(only, ",") {
		if n != "" {
			onlySet[n] = true
		}
	}
	knownActive := map[string]bool{}
	for k, e := range known {
		if e.Status == "known" {
			knownActive[k] = true
		}
	}
	var reports []harnessReport
	var runs []*replayRun
	inconclusive := []string{}
	allIntr, allStubs, allEnc := map[string]bool{}, map[string]bool{}, map[string]bool{}
	var totStates, totSteps int64
	bounds, notes := bounds0, notes0
	qTimeout := 10000
	maxSteps := int64(5_000_000)
	maxPaths := int64(2_000_000)
	budget := 15 * time.Minute
	if tier == "thorough" {
		qTimeout = 60000
		maxPaths = 50_000_000
		maxSteps = 20_000_000
		budget = 45 * time.Minute
	}
	nValidate := 3
	if tier == "thorough" {
		nValidate = 8
	}
	for _, h := range hfs {
		bounds = append(bounds, h.bounds...)
		notes = append(notes, h.notes...)
		var pkg *ssa.Package
		for _, p := range prog.AllPackages() {
			if p.Pkg.Path() == "github.com/tucats/ego/"+h.dir || (h.pkgName == "main" && strings.HasSuffix(p.Pkg.Path(), h.dir)) {
				pkg = p
			}
		}
		if pkg == nil {
			return fail("package for %s not found in program", h.dir)
		}
		stubs := map[string]string{}
		for t, r := range h.stubs {
			if !strings.Contains(r, ".") {
				r = pkg.Pkg.Path() + "." + r
			}
			stubs[t] = r
		}
		sums := map[string]bool{}
		for _, s := range h.sums {
			if _, ok := byName[s]; !ok {
				var near []string
				for k := range byName {
					if strings.HasPrefix(k, pkg.Pkg.Path()+".") {
						near = append(near, k)
					}
				}
				sort.Strings(near)
				return fail("summarize target %q not found; package has %v", s, near)
			}
			sums[s] = true
		}
		dropgo := map[string]bool{}
		for _, d := range h.dropgo {
			if _, ok := byName[d]; !ok {
				return fail("dropgo target %q not found", d)
			}
			dropgo[d] = true
		}
		for _, fnName := range h.funcs {
			if len(onlySet) > 0 && !onlySet[fnName] {
				continue
			}
			fn := pkg.Func(fnName)
			if fn == nil {
				return fail("harness %s not found", fnName)
			}
			ec := &interp.Config{
				Prog: prog, Stubs: stubs, Summaries: sums, MaxSteps: maxSteps, MaxPaths: maxPaths,
				QueryTimeout: qTimeout, Workers: workers, Solver: solverKind, Trace: trace,
				Deadline: time.Now().Add(budget), Tier: tier, KnownActive: knownActive, DropGo: dropgo,
				PanicOnly: h.panicOnly,
			}
			if debugVector != "" {
				b, err := os.ReadFile(debugVector)
				if err != nil {
					return fail("%v", err)
				}
				var doc struct {
					Runs []struct {
						Inputs map[string]uint64 `json:"inputs"`
					} `json:"runs"`
				}
				if err := json.Unmarshal(b, &doc); err != nil || len(doc.Runs) == 0 {
					return fail("bad vector file")
				}
				ec.Concrete = doc.Runs[0].Inputs
				ec.Workers = 1
			}
			res := interp.Explore(ec, fn)
			rep := harnessReport{
				Name: fnName, File: filepath.Base(h.path), Paths: res.Paths, States: res.States, Steps: res.Steps, Forks: res.Forks,
				Queries: map[string]int{"sat": res.Queries.Sat, "unsat": res.Queries.Unsat, "unknown": res.Queries.Unknown, "error": res.Queries.Errors},
				SolverS: res.Queries.Time.Seconds(), WallS: res.Wall.Seconds(), Asserts: res.Asserts, Proved: res.AssertsProved, DomainDecided: res.DomainDecided,
				Reach: res.Reached, Inconclusive: res.Inconclusive, Violations: len(res.Violations), Summaries: res.Summarized,
				Bounds: res.Bounds, Samples: res.Samples,
			}
			for k := range res.KnownHits {
				rep.Known = append(rep.Known, k)
			}
			sort.Strings(rep.Known)
			reports = append(reports, rep)
			totStates += res.States
			totSteps += res.Steps + res.Forks
			for k := range res.Intrinsics {
				allIntr[k] = true
			}
			for k := range res.StubsUsed {
				allStubs[k] = true
			}
			for k := range res.Encoded {
				allEnc[k] = true
			}
			for k, n := range res.Inconclusive {
				inconclusive = append(inconclusive, fmt.Sprintf("%s: %s (x%d)", fnName, k, n))
			}
			for _, lbl := range res.ReachLabels {
				if !res.Reached[lbl] {
					inconclusive = append(inconclusive, fmt.Sprintf("%s: vacuous: reach witness %q never reached", fnName, lbl))
				}
			}
			if len(res.Reached) == 0 && res.Paths["completed"] == 0 && len(res.Violations) == 0 && len(res.KnownHits) == 0 {
				inconclusive = append(inconclusive, fmt.Sprintf("%s: vacuous: no path completed", fnName))
			}
			fmt.Fprintf(os.Stderr, "%s: paths=%v states=%d queries(sat=%d unsat=%d unk=%d err=%d) solver=%.1fs wall=%.1fs viol=%d known=%v incon=%d domain=%d\n",
				fnName, res.Paths, res.States, res.Queries.Sat, res.Queries.Unsat, res.Queries.Unknown, res.Queries.Errors,
				res.Queries.Time.Seconds(), res.Wall.Seconds(), len(res.Violations), rep.Known, len(res.Inconclusive), res.DomainDecided)
			for i := range res.Violations {
				v := &res.Violations[i]
				runs = append(runs, &replayRun{Harness: fnName, Inputs: v.Inputs, purpose: "violation", viol: v, dir: h.dir})
			}
			for kid, v := range res.KnownHits {
				v := v
				runs = append(runs, &replayRun{Harness: fnName, Inputs: v.Inputs, purpose: "known", viol: &v, knownID: kid, dir: h.dir})
			}
			nv := 0
			for _, s := range res.Samples {
				if nv >= nValidate {
					break
				}
				if strings.HasPrefix(s.Outcome, "completed") && len(s.Observed) > 0 {
					runs = append(runs, &replayRun{Harness: fnName, Inputs: s.Inputs, purpose: "validate", observed: s.Observed, dir: h.dir})
					nv++
				}
			}
		}
	}

	// 5. native replay + translator validation
	validated := 0
	if !noReplay && len(runs) > 0 {
		if err := nativeReplay(repo, scratch, overlayFiles, dirs, runs, tier); err != nil {
			inconclusive = append(inconclusive, "native replay failed: "+err.Error())
		}
	}
	violations := 0
	exit := 0
	os.MkdirAll(filepath.Join(verif, "replays", id), 0o755)
	nrep := 0
	seenKnown := map[string]bool{}
	for _, r := range runs {
		switch r.purpose {
		case "validate":
			if noReplay {
				continue
			}
			ok, why := compareObserved(r)
			if ok {
				validated++
			} else {
				inconclusive = append(inconclusive, fmt.Sprintf("%s: translator validation mismatch: %s", r.Harness, why))
			}
		case "violation":
			if noReplay {
				fmt.Printf("UNREPLAYED %s %s: %s inputs=%v\n", r.Harness, r.viol.Kind, r.viol.Msg, r.Inputs)
				inconclusive = append(inconclusive, "violation found but replay disabled")
				continue
			}
			switch {
			case strings.HasPrefix(r.result, "reproduced"):
				nrep++
				path := filepath.Join(verif, "replays", id, fmt.Sprintf("%s-%d.json", r.Harness, nrep))
				doc := map[string]any{"property": id, "harness": r.Harness, "kind": r.viol.Kind, "msg": r.viol.Msg, "dir": r.dir,
					"runs": []any{map[string]any{"harness": r.Harness, "inputs": r.Inputs}}, "native_output": r.out, "decoded": decodeInputs(r.Inputs)}
				b, _ := json.MarshalIndent(doc, "", " ")
				os.WriteFile(path, b, 0o644)
				fmt.Printf("VIOLATION property=%s replay=%s\n", id, path)
				fmt.Printf("  %s: %s: %s\n  inputs: %s\n", r.Harness, r.viol.Kind, r.viol.Msg, decodeInputs(r.Inputs))
				violations++
				exit = 1
			default:
				fmt.Printf("SPURIOUS property=%s harness=%s %s: %s (native: %s) inputs=%s\n  engine stack: %s\n", id, r.Harness, r.viol.Kind, r.viol.Msg, r.result, decodeInputs(r.Inputs), r.viol.Stack)
				inconclusive = append(inconclusive, fmt.Sprintf("%s: counterexample did not reproduce natively (%s): %s", r.Harness, r.result, r.viol.Msg))
			}
		case "known":
			if seenKnown[r.knownID] {
				continue
			}
			if noReplay || strings.HasPrefix(r.result, "reproduced") {
				seenKnown[r.knownID] = true
				fmt.Printf("KNOWN-FINDING: property=%s %s [%s] witness: %s\n", id, known[r.knownID].What, r.knownID, decodeInputs(r.Inputs))
			} else {
				inconclusive = append(inconclusive, fmt.Sprintf("%s: known-class counterexample %s did not reproduce natively (%s)", r.Harness, r.knownID, r.result))
			}
		}
	}
	for kid, e := range known {
		if e.Status == "known" && !seenKnown[kid] {
			fmt.Printf("note: known finding %s (%s) was not observed on this tree\n", kid, e.What)
		}
	}
	if exit == 0 && len(inconclusive) > 0 {
		exit = 2
		for _, s := range inconclusive {
			fmt.Printf("INCONCLUSIVE property=%s %s\n", id, s)
		}
	}
	enc := keys(allEnc)
	extra := map[string]any{
		"functions_encoded": enc, "functions_encoded_count": len(enc), "intrinsics_used": keys(allIntr), "stubs": keys(allStubs),
		"bounds": bounds, "notes": notes, "harnesses": reports, "load_s": loadS, "known_findings_seen": keys(seenKnown),
		"solver_versions": solverVersion(solverKind), "tier_budget": fmt.Sprintf("query timeout %dms, per-path %d SSA instructions, %d paths, %s wall per harness", qTimeout, maxSteps, maxPaths, budget),
	}
	writeEvidence(evOut, id, tier, seed, start, reports, extra, inconclusive, runs, totStates, totSteps, &validated)
	_ = violations
	if exit == 0 {
		fmt.Printf("OK property=%s tier=%s harnesses=%d states=%d wall=%.1fs\n", id, tier, len(reports), totStates, time.Since(start).Seconds())
	}
	return exit
}

func keys(m map[string]bool) []string {
	out := make([]string, 0, len(m))
	for k := range m {
		out = append(out, k)
	}
	sort.Strings(out)
	return out
}

func solverVersion(kind string) string {
	out, err := exec.Command(kind, "--version").CombinedOutput()
	if err != nil {
		return kind
	}
	return strings.TrimSpace(strings.SplitN(string(out), "\n", 2)[0])
}

func lastLines(s string, n int) string {
	l := strings.Split(strings.TrimSpace(s), "\n")
	if len(l) > n {
		l = l[len(l)-n:]
	}
	return strings.Join(l, " | ")
}

// decodeInputs renders a vector readably: strings are reassembled.
func decodeInputs(in map[string]uint64) string {
	type sv struct {
		n   int
		b   map[int]byte
		has bool
	}
	strs := map[string]*sv{}
	scal := map[string]uint64{}
	re := regexp.MustCompile(`^(.*#\d+)\[(\d+)\]$`)
	for k, v := range in {
		if strings.HasSuffix(k, ".len") {
			base := strings.TrimSuffix(k, ".len")
			if strs[base] == nil {
				strs[base] = &sv{b: map[int]byte{}}
			}
			strs[base].n = int(v)
			strs[base].has = true
			continue
		}
		if m := re.FindStringSubmatch(k); m != nil {
			if strs[m[1]] == nil {
				strs[m[1]] = &sv{b: map[int]byte{}}
			}
			i, _ := strconv.Atoi(m[2])
			strs[m[1]].b[i] = byte(v)
			continue
		}
		scal[k] = v
	}
	var parts []string
	for k, s := range strs {
		n := s.n
		if !s.has {
			n = len(s.b)
		}
		b := make([]byte, n)
		for i := range b {
			b[i] = s.b[i]
		}
		parts = append(parts, fmt.Sprintf("%s=%q", k, string(b)))
	}
	for k, v := range scal {
		parts = append(parts, fmt.Sprintf("%s=%d", k, v))
	}
	sort.Strings(parts)
	return strings.Join(parts, " ")
}

func compareObserved(r *replayRun) (bool, string) {
	if !strings.HasPrefix(r.result, "not-reproduced") {
		return false, "native run result " + r.result + " on a path the engine completed without failure; inputs " + decodeInputs(r.Inputs)
	}
	var nat []string
	for _, l := range r.out {
		if strings.HasPrefix(l, "VERIF-OBSERVE: ") {
			nat = append(nat, strings.TrimPrefix(l, "VERIF-OBSERVE: "))
		}
	}
	var eng []string
	for _, o := range r.observed {
		eng = append(eng, o.Name+"="+o.Val)
	}
	if strings.Join(nat, "\n") != strings.Join(eng, "\n") {
		return false, fmt.Sprintf("engine %q vs native %q on %s", eng, nat, decodeInputs(r.Inputs))
	}
	return true, ""
}

// nativeReplay runs all vectors against the real build, one go test per package directory.
func nativeReplay(repo, scratch string, overlayFiles map[string]string, dirs map[string][]*harnessFile, runs []*replayRun, tier string) error {
	byDir := map[string][]*replayRun{}
	for _, r := range runs {
		byDir[r.dir] = append(byDir[r.dir], r)
	}
	for dir, rs := range byDir {
		hs := dirs[dir]
		// wrapper test
		var sb strings.Builder
		fmt.Fprintf(&sb, "package %s\n\nimport (\n\t\"testing\"\n\n\tzzsym \"github.com/tucats/ego/internal/zzverif/sym\"\n)\n\n", hs[0].pkgName)
		sb.WriteString("func TestVerifReplay(t *testing.T) {\n\tzzsym.Replay(t, map[string]func(){\n")
		for _, h := range hs {
			for _, f := range h.funcs {
				fmt.Fprintf(&sb, "\t\t%q: %s,\n", f, f)
			}
		}
		sb.WriteString("\t})\n}\n")
		wrap := filepath.Join(scratch, "wrap_"+strings.ReplaceAll(dir, "/", "_")+"_test.go")
		if err := os.WriteFile(wrap, []byte(sb.String()), 0o644); err != nil {
			return err
		}
		ov := map[string]string{}
		for k, v := range overlayFiles {
			ov[k] = v
		}
		ov[filepath.Join(repo, dir, "zz_verif_replay_test.go")] = wrap
		ob, _ := json.Marshal(map[string]any{"Replace": ov})
		ovPath := filepath.Join(scratch, "overlay_"+strings.ReplaceAll(dir, "/", "_")+".json")
		os.WriteFile(ovPath, ob, 0o644)
		vb, _ := json.Marshal(map[string]any{"runs": rs})
		vecPath := filepath.Join(scratch, "vec_"+strings.ReplaceAll(dir, "/", "_")+".json")
		os.WriteFile(vecPath, vb, 0o644)
		cmd := exec.Command("go", "test", "-v", "-vet=off", "-count=1", "-overlay", ovPath, "-run", "^TestVerifReplay$", "-timeout", "10m", "./"+dir)
		cmd.Dir = repo
		cmd.Env = append(goEnv(), "VERIF_REPLAY="+vecPath, "VERIF_TIER="+tier, "GOCACHE="+goCache())
		if hs[0].panicOnly {
			cmd.Env = append(cmd.Env, "VERIF_PANIC_ONLY=1")
		}
		out, err := cmd.CombinedOutput()
		text := string(out)
		if lf := os.Getenv("SYMGO_NATIVELOG"); lf != "" {
			if f, ferr := os.OpenFile(lf, os.O_APPEND|os.O_CREATE|os.O_WRONLY, 0o644); ferr == nil {
				f.WriteString(text)
				f.Close()
			}
		}
		cur := -1
		for _, line := range strings.Split(text, "\n") {
			line = strings.TrimRight(line, "\r")
			if strings.HasPrefix(line, "VERIF-RUN: ") {
				f := strings.Fields(line)
				cur, _ = strconv.Atoi(f[1])
				continue
			}
			if cur >= 0 && cur < len(rs) {
				if strings.HasPrefix(line, "VERIF-RESULT: ") {
					rs[cur].result = strings.TrimPrefix(line, "VERIF-RESULT: ")
				}
				if strings.HasPrefix(line, "VERIF-") && len(rs[cur].out) < 50 {
					rs[cur].out = append(rs[cur].out, line)
				}
			}
		}
		if !strings.Contains(text, "VERIF-END") {
			// the test binary died (fatal error, os.Exit, timeout): attribute to the run in progress
			if cur >= 0 && cur < len(rs) && rs[cur].result == "" {
				rs[cur].result = "reproduced (process died): " + lastLines(text, 3)
				for i := cur + 1; i < len(rs); i++ {
					rs[i].result = "not-run"
				}
			} else {
				return fmt.Errorf("go test in %s failed: %v: %s", dir, err, lastLines(text, 8))
			}
		}
	}
	return nil
}

func goCache() string {
	if c := os.Getenv("GOCACHE"); c != "" {
		return c
	}
	out, err := exec.Command("go", "env", "GOCACHE").Output()
	if err == nil {
		return strings.TrimSpace(string(out))
	}
	return filepath.Join(os.TempDir(), "gocache")
}

func writeEvidence(path, id, tier string, seed int, start time.Time, reports []harnessReport, extra map[string]any, inconclusive []string, runs []*replayRun, states, transitions int64, validated *int) {
	cov := map[string]any{}
	for k, v := range extra {
		cov[k] = v
	}
	if states < 1 {
		states = 1
	}
	if transitions < 1 {
		transitions = 1
	}
	cov["states"] = states
	cov["transitions"] = transitions
	tv := 0
	if validated != nil {
		tv = *validated
	}
	nviol := 0
	for _, r := range runs {
		if r.purpose == "violation" && strings.HasPrefix(r.result, "reproduced") {
			nviol++
			tv++
		}
		if r.purpose == "known" && strings.HasPrefix(r.result, "reproduced") {
			tv++
		}
	}
	cov["traces_validated_against_impl"] = tv
	var samples []any
	for _, rep := range reports {
		for i, s := range rep.Samples {
			if i >= 3 {
				break
			}
			samples = append(samples, map[string]any{"harness": rep.Name, "outcome": s.Outcome, "decisions": s.Decisions, "path_condition_conjuncts": s.PCSize,
				"ssa_instructions": s.Steps, "inputs": decodeInputs(s.Inputs), "observed": s.Observed})
		}
	}
	if len(samples) == 0 {
		samples = append(samples, map[string]any{"note": "no path explored", "inconclusive": inconclusive})
	}
	cov["samples"] = samples
	var q [4]int
	var solverS float64
	var obligations, proved int64
	for _, rep := range reports {
		q[0] += rep.Queries["sat"]
		q[1] += rep.Queries["unsat"]
		q[2] += rep.Queries["unknown"]
		q[3] += rep.Queries["error"]
		solverS += rep.SolverS
		obligations += rep.Asserts
		proved += rep.Proved
	}
	cov["queries"] = map[string]int{"sat": q[0], "unsat": q[1], "unknown": q[2], "error": q[3]}
	cov["solver_s"] = solverS
	cov["assertion_obligations"] = obligations
	cov["assertion_obligations_unsat"] = proved
	cov["inconclusive_reasons"] = inconclusive
	cov["exhaustive"] = false
	cov["explanation"] = "bounded symbolic execution of the current /repo source (go/ssa) with SMT-decided branches and assertions; every count above is measured on this run"
	ev := map[string]any{
		"property_id": id, "tier": tier, "seed": seed, "level": "model_checking", "coverage": cov,
		"assumptions": []string{
			"bounds and stubs as listed under coverage.bounds / coverage.stubs / coverage.notes; anything outside them is outside the claim",
			"engine intrinsics (coverage.intrinsics_used) model sync, atomic, fmt, bytealg, time.Now natively and are trusted",
			"z3 answers are trusted (unknown/error/timeouts are reported as inconclusive, never as success)",
		},
		"wall_s": time.Since(start).Seconds(), "violations": nviol,
	}
	b, _ := json.MarshalIndent(ev, "", " ")
	os.WriteFile(path, b, 0o644)
}
