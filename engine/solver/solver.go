// Package solver drives one long-lived SMT solver process over stdin/stdout.
package solver

import (
	"bufio"
	"fmt"
	"io"
	"os/exec"
	"strconv"
	"strings"
	"time"

	"verif/engine/term"
)

type Result int

const (
	Unsat Result = iota
	Sat
	Unknown
)

func (r Result) String() string { return [...]string{"unsat", "sat", "unknown"}[r] }

type Stats struct {
	Sat, Unsat, Unknown, Errors int
	Time                        time.Duration
}

// Session is an incremental solver session. Assertions added with Assert are
// permanent until Reset; Check(extra) tests pc ∧ extra inside push/pop.
type Session struct {
	Kind      string // z3 | z3-new | cvc5
	cmd       *exec.Cmd
	in        io.WriteCloser
	out       *bufio.Reader
	pr        *term.Printer
	TimeoutMs int
	Stats     Stats
	LastErr   string
	Log       io.Writer
	Gen       int // incremented whenever the solver process was restarted (all assertions lost)
}

func New(kind string, timeoutMs int) (*Session, error) {
	s := &Session{Kind: kind, TimeoutMs: timeoutMs}
	if err := s.start(); err != nil {
		return nil, err
	}
	return s, nil
}

func (s *Session) start() error {
	var cmd *exec.Cmd
	switch s.Kind {
	case "z3":
		cmd = exec.Command("z3", "-in", "-smt2")
	case "z3-new":
		cmd = exec.Command("z3-new", "-in", "-smt2")
	case "cvc5":
		cmd = exec.Command("cvc5", "--incremental", "--lang=smt2", "--produce-models", fmt.Sprintf("--tlimit-per=%d", s.TimeoutMs))
	default:
		return fmt.Errorf("unknown solver %q", s.Kind)
	}
	in, err := cmd.StdinPipe()
	if err != nil {
		return err
	}
	out, err := cmd.StdoutPipe()
	if err != nil {
		return err
	}
	cmd.Stderr = cmd.Stdout
	if err := cmd.Start(); err != nil {
		return err
	}
	s.cmd, s.in, s.out = cmd, in, bufio.NewReaderSize(out, 1<<16)
	s.prelude()
	return nil
}

func (s *Session) prelude() {
	s.pr = term.NewPrinter()
	var sb strings.Builder
	if s.Kind == "cvc5" {
		sb.WriteString("(set-logic ALL)\n")
	} else {
		sb.WriteString("(set-option :produce-models true)\n")
		fmt.Fprintf(&sb, "(set-option :timeout %d)\n", s.TimeoutMs)
	}
	s.send(sb.String())
}

func (s *Session) send(txt string) {
	if s.Log != nil {
		io.WriteString(s.Log, txt)
	}
	io.WriteString(s.in, txt)
}

func (s *Session) Close() {
	if s.cmd != nil {
		s.in.Close()
		s.cmd.Process.Kill()
		s.cmd.Wait()
		s.cmd = nil
	}
}

// Reset clears all assertions and definitions.
func (s *Session) Reset() {
	if s.Kind == "cvc5" {
		// cvc5 1.0 (reset) is fine too, but restarting is the most robust.
		s.send("(reset)\n")
	} else {
		s.send("(reset)\n")
	}
	s.prelude()
}

// Assert adds t permanently.
func (s *Session) Assert(t *term.Term) {
	var sb strings.Builder
	e := s.pr.Emit(&sb, t)
	fmt.Fprintf(&sb, "(assert %s)\n", e)
	s.send(sb.String())
}

// readLine reads one line of solver output.
func (s *Session) readLine() (string, error) {
	l, err := s.out.ReadString('\n')
	return strings.TrimSpace(l), err
}

// Check tests satisfiability of the permanent assertions ∧ extra. When sat and
// wantModel, values of all declared variables are returned.
func (s *Session) Check(extra []*term.Term, wantModel bool) (Result, map[string]uint64) {
	start := time.Now()
	defer func() { s.Stats.Time += time.Since(start) }()
	var sb strings.Builder
	// definitions must survive the pop, so emit them before push
	exprs := make([]string, len(extra))
	for i, t := range extra {
		exprs[i] = s.pr.Emit(&sb, t)
	}
	sb.WriteString("(push 1)\n")
	for _, e := range exprs {
		fmt.Fprintf(&sb, "(assert %s)\n", e)
	}
	sb.WriteString("(check-sat)\n(echo \"@@done\")\n")
	s.send(sb.String())
	res := Unknown
	sawErr := false
	// the solver's own timeout is cooperative and is not always honoured
	// (preprocessing of wide multipliers/dividers): enforce it from outside.
	proc := s.cmd.Process
	killed := false
	watchdog := time.AfterFunc(time.Duration(s.TimeoutMs)*time.Millisecond+3*time.Second, func() {
		killed = true
		proc.Kill()
	})
	defer watchdog.Stop()
	for {
		l, err := s.readLine()
		if err != nil {
			if killed {
				s.LastErr = "solver exceeded its time limit and was killed"
				s.Stats.Unknown++
			} else {
				s.LastErr = "solver died: " + err.Error()
				s.Stats.Errors++
			}
			s.restart()
			return Unknown, nil
		}
		if l == "@@done" || l == "\"@@done\"" {
			break
		}
		switch {
		case l == "sat":
			res = Sat
		case l == "unsat":
			res = Unsat
		case l == "unknown" || l == "timeout":
			res = Unknown
		case strings.HasPrefix(l, "(error"):
			sawErr = true
			s.LastErr = l
		}
	}
	if sawErr {
		s.Stats.Errors++
		s.send("(pop 1)\n")
		return Unknown, nil
	}
	var model map[string]uint64
	if res == Sat && wantModel {
		model = s.getModel()
		if model == nil {
			res = Unknown
		}
	}
	s.send("(pop 1)\n")
	if s.Log != nil {
		fmt.Fprintf(s.Log, "; => %v in %v\n", res, time.Since(start))
	}
	switch res {
	case Sat:
		s.Stats.Sat++
	case Unsat:
		s.Stats.Unsat++
	default:
		s.Stats.Unknown++
	}
	return res, model
}

func (s *Session) restart() {
	s.Close()
	s.start()
	s.Gen++
}

func (s *Session) getModel() map[string]uint64 {
	vars := s.pr.Vars()
	m := map[string]uint64{}
	if len(vars) == 0 {
		return m
	}
	names := make([]string, 0, len(vars))
	for n := range vars {
		names = append(names, n)
	}
	var sb strings.Builder
	sb.WriteString("(get-value (")
	for _, n := range names {
		sb.WriteString(term.VarSym(n))
		sb.WriteString(" ")
	}
	sb.WriteString("))\n(echo \"@@done\")\n")
	s.send(sb.String())
	var all strings.Builder
	for {
		l, err := s.readLine()
		if err != nil {
			s.LastErr = "solver died in get-value"
			return nil
		}
		if l == "@@done" || l == "\"@@done\"" {
			break
		}
		all.WriteString(l)
		all.WriteString(" ")
	}
	txt := all.String()
	if strings.Contains(txt, "(error") {
		s.LastErr = txt
		s.Stats.Errors++
		return nil
	}
	// parse pairs (|name| value)
	i := 0
	for i < len(txt) {
		j := strings.IndexByte(txt[i:], '|')
		if j < 0 {
			break
		}
		i += j + 1
		k := strings.IndexByte(txt[i:], '|')
		if k < 0 {
			break
		}
		name := txt[i : i+k]
		i += k + 1
		// skip spaces
		for i < len(txt) && txt[i] == ' ' {
			i++
		}
		// value token up to ')'
		e := strings.IndexByte(txt[i:], ')')
		if e < 0 {
			break
		}
		tok := strings.TrimSpace(txt[i : i+e])
		i += e
		var v uint64
		switch {
		case tok == "true":
			v = 1
		case tok == "false":
			v = 0
		case strings.HasPrefix(tok, "#x"):
			v, _ = strconv.ParseUint(tok[2:], 16, 64)
		case strings.HasPrefix(tok, "#b"):
			v, _ = strconv.ParseUint(tok[2:], 2, 64)
		case strings.HasPrefix(tok, "(_ bv"):
			f := strings.Fields(tok[5:])
			v, _ = strconv.ParseUint(f[0], 10, 64)
		default:
			s.LastErr = "unparsed model value: " + tok
			return nil
		}
		m[name] = v
	}
	return m
}
