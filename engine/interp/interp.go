// Copyright 2013 The Go Authors. All rights reserved.
// Use of this source code is governed by a BSD-style
// license that can be found in the LICENSE file.
//
// Adapted from golang.org/x/tools/go/ssa/interp: symbolic values, explicit
// target panics, undo logging, lazy package initialisation, stubs/intrinsics.

package interp

import (
	"fmt"
	"go/token"
	"go/types"
	"os"
	"slices"
	"strings"

	"golang.org/x/tools/go/ssa"
	"verif/engine/solver"
	"verif/engine/term"
)

type continuation int

const (
	kNext continuation = iota
	kReturn
	kJump
)

type undoRec struct {
	addr *value
	old  value
	fn   func()
}

type fnInfo struct {
	idx      map[ssa.Value]int
	n        int
	firstNon map[*ssa.BasicBlock]int
	consts   map[*ssa.Const]value
}

// Interp is one worker's interpreter instance. The SSA program is shared and
// read-only; everything else is private to the worker.
type Interp struct {
	prog    *ssa.Program
	globals map[*ssa.Global]*value
	pkgInit map[*ssa.Package]int // 0 untouched, 1 running, 2 done
	fninfo  map[*ssa.Function]*fnInfo
	sizes   types.Sizes
	trace   bool

	runtimeErrorType types.Type
	stubs            map[string]value // full function name -> replacement
	cfg              *Config

	// symbolic state of the current path
	ts        *term.Store
	sol       *solver.Session
	solFresh  bool // solver session has been reset for this path
	solGen    int
	pc        []*term.Term
	pcSet     map[uint32]bool
	doms      map[string]*domain
	multiVars map[string]bool
	asserted  int
	model     map[string]uint64
	ev        *term.Evaluator
	dev       *term.Evaluator
	prefix    []Decision
	pos       int
	decisions []Decision
	undo      []undoRec
	logging   bool
	symSeq    map[string]int
	symVars   []SymVar // named inputs created on this path, in order
	steps     int64
	nondetMapOrder bool
	known     []knownClass
	reached   map[string]bool
	observes  []Observation
	clockLast *term.Term
	clockFirst *term.Term // first reading of the path
	clockSpan  uint64     // when > 0: every reading is at most this many seconds after the first
	clockHalf *term.Term // 0/1 half-second part of the last ClockFine reading, or nil
	uuidSeq   int // per-path counter: uuid.New() returns distinct, deterministic values
	usedIntrinsics map[string]bool
	usedStubs      map[string]bool
	encoded        map[string]bool
	initDepth      int
	summaryDepth   int
	sum            *sumState
	sumCache       map[*ssa.Function]*sumEntry
	sumInst        map[sumKey]*term.Term
	callStack      []*ssa.Function
	panicStack     string
	syncMaps       map[*value]*omap

	sched *scheduler
	ex    *Explorer
	id    int
}

type SymVar struct {
	Name string
	W    uint8
	Kind string
}

type Observation struct {
	Name string
	Val  string
}

type knownClass struct {
	id   string
	cond *term.Term
}

type deferred struct {
	fn    value
	args  []value
	instr *ssa.Defer
	tail  *deferred
}

type frame struct {
	i                *Interp
	caller           *frame
	fn               *ssa.Function
	info             *fnInfo
	block, prevBlock *ssa.BasicBlock
	env              []value
	locals           []value
	defers           *deferred
	result           value
	panicking        bool
	panic            any
	phitemps         []value
	th               *thread
	depth            int
}

// If the target program panics, the interpreter panics with this type.
type targetPanic struct {
	v     value
	stack string // target call stack where the panic was first seen unwinding
}

func (p targetPanic) String() string { return toString(p.v) }

// pathEnd terminates the current path (infeasible assumption, explicit stop).
type pathEnd struct{ reason string }

// engineError aborts the current path as inconclusive.
type engineError struct{ msg string }

// goexitPanic unwinds a goroutine (runtime.Goexit).
type goexitPanic struct{}

func unsupported(format string, args ...any) {
	panic(engineError{fmt.Sprintf(format, args...)})
}

func deref(t types.Type) types.Type {
	if p, ok := t.Underlying().(*types.Pointer); ok {
		return p.Elem()
	}
	panic(fmt.Sprintf("deref: not a pointer: %s", t))
}

func (in *Interp) info(fn *ssa.Function) *fnInfo {
	if fi, ok := in.fninfo[fn]; ok {
		return fi
	}
	fi := &fnInfo{idx: map[ssa.Value]int{}, firstNon: map[*ssa.BasicBlock]int{}, consts: map[*ssa.Const]value{}}
	add := func(v ssa.Value) {
		fi.idx[v] = fi.n
		fi.n++
	}
	for _, p := range fn.Params {
		add(p)
	}
	for _, fv := range fn.FreeVars {
		add(fv)
	}
	for _, b := range fn.Blocks {
		first := len(b.Instrs)
		for i, instr := range b.Instrs {
			if _, ok := instr.(*ssa.Phi); !ok && first == len(b.Instrs) {
				first = i
			}
			if v, ok := instr.(ssa.Value); ok {
				add(v)
			}
		}
		fi.firstNon[b] = first
	}
	in.fninfo[fn] = fi
	return fi
}

func (fr *frame) get(key ssa.Value) value {
	switch key := key.(type) {
	case nil:
		return nil
	case *ssa.Function:
		if key.Pkg != nil {
			fr.i.ensureInit(key.Pkg)
		}
		return key
	case *ssa.Builtin:
		return key
	case *ssa.Const:
		if v, ok := fr.info.consts[key]; ok {
			return v
		}
		v := constValue(key)
		switch v.(type) {
		case structure, array, tuple:
			return v // fresh aggregate each time
		}
		fr.info.consts[key] = v
		return v
	case *ssa.Global:
		return fr.i.globalAddr(key)
	}
	if i, ok := fr.info.idx[key]; ok {
		return fr.env[i]
	}
	panic(fmt.Sprintf("get: no value for %T: %v", key, key.Name()))
}

func (fr *frame) set(key ssa.Value, v value) {
	fr.env[fr.info.idx[key]] = v
}

func (in *Interp) globalAddr(g *ssa.Global) *value {
	if g.Pkg != nil {
		in.ensureInit(g.Pkg)
	}
	if r, ok := in.globals[g]; ok {
		return r
	}
	cell := zero(deref(g.Type()))
	in.globals[g] = &cell
	return &cell
}

// skipInit lists packages whose initialisers are never interpreted: they
// only make sense against a real operating system or the real runtime.
func skipInit(path string) bool {
	switch path {
	case "runtime", "os", "syscall", "reflect", "sync", "sync/atomic", "internal/reflectlite",
		"internal/abi", "internal/cpu", "internal/godebug", "internal/poll", "testing",
		"os/signal", "os/exec", "os/user", "net", "internal/bytealg", "unsafe", "log", "log/slog",
		"internal/oserror", "io/fs", "path/filepath", "internal/testlog", "crypto/rand",
		"crypto/internal/sysrand", "internal/sysinfo", "internal/runtime/atomic", "iter", "weak", "unique",
		"encoding/json", "encoding/xml", "encoding/gob", "text/template", "html/template", "encoding/asn1", "encoding/binary", "flag", "go/types", "go/ast", "go/parser",
		"time/tzdata", "embed", "net/http", "crypto/tls", "crypto/x509", "database/sql", "mime", "internal/godebugs", "internal/race", "internal/msan", "internal/asan":
		return true
	}
	if first, _, _ := strings.Cut(path, "/"); strings.Contains(first, ".") {
		// third-party module: only a few are safe to initialise by interpretation
		for _, ok := range []string{"github.com/tucats/", "github.com/brandenc40/", "github.com/google/uuid", "github.com/golang-jwt/"} {
			if strings.HasPrefix(path, ok) {
				return false
			}
		}
		return true
	}
	if strings.HasPrefix(path, "runtime/") || strings.HasPrefix(path, "internal/runtime/") ||
		strings.HasPrefix(path, "internal/syscall/") || strings.HasPrefix(path, "crypto/internal/") ||
		strings.HasPrefix(path, "vendor/") || strings.HasPrefix(path, "golang.org/x/sys") ||
		strings.HasPrefix(path, "modernc.org/") || strings.HasPrefix(path, "github.com/lib/pq") ||
		strings.HasPrefix(path, "github.com/shirou/") || (strings.HasPrefix(path, "net/") && path != "net/url") {
		return true
	}
	return false
}

func (in *Interp) ensureInit(pkg *ssa.Package) {
	if st := in.pkgInit[pkg]; st != 0 {
		return
	}
	if skipInit(pkg.Pkg.Path()) {
		in.pkgInit[pkg] = 2
		return
	}
	in.pkgInit[pkg] = 1
	initFn := pkg.Func("init")
	if initFn != nil && initFn.Blocks != nil {
		saved := in.logging
		in.logging = false
		in.initDepth++
		if in.trace {
			fmt.Fprintf(os.Stderr, "init %s\n", pkg.Pkg.Path())
		}
		func() {
			defer func() {
				in.initDepth--
				in.logging = saved
			}()
			in.callSSA(nil, token.NoPos, initFn, nil, nil)
		}()
	}
	in.pkgInit[pkg] = 2
}

// runDefer runs a deferred call d.
// It always returns normally, but may set or clear fr.panic.
func (fr *frame) runDefer(d *deferred) {
	var ok bool
	defer func() {
		if !ok {
			r := recover()
			if _, isTarget := r.(targetPanic); !isTarget {
				if _, isExit := r.(goexitPanic); !isExit {
					panic(r) // engine-level abort: propagate untouched
				}
			}
			// Deferred call created a new state of panic.
			fr.panicking = true
			fr.panic = r
		}
	}()
	fr.i.call(fr, d.instr.Pos(), d.fn, d.args)
	ok = true
}

func (fr *frame) runDefers() {
	for d := fr.defers; d != nil; d = d.tail {
		fr.runDefer(d)
	}
	fr.defers = nil
	if fr.panicking {
		panic(fr.panic) // new panic, or still panicking
	}
}

func (in *Interp) lookupMethod(typ types.Type, meth *types.Func) *ssa.Function {
	return in.prog.LookupMethod(typ, meth.Pkg(), meth.Name())
}

// visitInstr interprets a single ssa.Instruction within the activation
// record frame.
func visitInstr(fr *frame, instr ssa.Instruction) continuation {
	in := fr.i
	in.steps++
	if in.steps&0xfff == 0 {
		in.checkBudget()
	}
	switch instr := instr.(type) {
	case *ssa.DebugRef:
		// no-op

	case *ssa.UnOp:
		fr.set(instr, in.unop(fr, instr, fr.get(instr.X)))

	case *ssa.BinOp:
		fr.set(instr, in.binop(instr.Op, instr.X.Type(), fr.get(instr.X), fr.get(instr.Y)))

	case *ssa.Call:
		fn, args := prepareCall(fr, &instr.Call)
		fr.set(instr, in.call(fr, instr.Pos(), fn, args))

	case *ssa.ChangeInterface:
		fr.set(instr, fr.get(instr.X))

	case *ssa.ChangeType:
		fr.set(instr, fr.get(instr.X)) // (can't fail)

	case *ssa.Convert:
		fr.set(instr, in.conv(fr, instr.Type(), instr.X.Type(), fr.get(instr.X)))

	case *ssa.MultiConvert:
		fr.set(instr, in.conv(fr, instr.Type(), instr.X.Type(), fr.get(instr.X)))

	case *ssa.SliceToArrayPointer:
		fr.set(instr, in.sliceToArrayPointer(instr.Type(), instr.X.Type(), fr.get(instr.X)))

	case *ssa.MakeInterface:
		fr.set(instr, iface{t: instr.X.Type(), v: fr.get(instr.X)})

	case *ssa.Extract:
		fr.set(instr, fr.get(instr.Tuple).(tuple)[instr.Index])

	case *ssa.Slice:
		fr.set(instr, in.slice(instr, fr.get(instr.X), fr.get(instr.Low), fr.get(instr.High), fr.get(instr.Max)))

	case *ssa.Return:
		switch len(instr.Results) {
		case 0:
		case 1:
			fr.result = fr.get(instr.Results[0])
		default:
			res := make([]value, 0, len(instr.Results))
			for _, r := range instr.Results {
				res = append(res, fr.get(r))
			}
			fr.result = tuple(res)
		}
		fr.block = nil
		return kReturn

	case *ssa.RunDefers:
		fr.runDefers()

	case *ssa.Panic:
		panic(targetPanic{v: fr.get(instr.X)})

	case *ssa.Send:
		in.chanSend(fr, fr.get(instr.Chan).(*chanObj), fr.get(instr.X))

	case *ssa.Store:
		addr := fr.get(instr.Addr)
		switch a := addr.(type) {
		case *value:
			if a == nil {
				in.nilDeref()
			}
			in.store(deref(instr.Addr.Type()), a, fr.get(instr.Val))
		case symAddr:
			k := in.concretizeInt(a.idx, len(a.base))
			in.store(deref(instr.Addr.Type()), &a.base[k], fr.get(instr.Val))
		default:
			unsupported("store through %T", addr)
		}

	case *ssa.If:
		succ := 1
		if in.truth(fr.get(instr.Cond)) {
			succ = 0
		}
		fr.prevBlock, fr.block = fr.block, fr.block.Succs[succ]
		return kJump

	case *ssa.Jump:
		fr.prevBlock, fr.block = fr.block, fr.block.Succs[0]
		return kJump

	case *ssa.Defer:
		fn, args := prepareCall(fr, &instr.Call)
		defers := &fr.defers
		if into := fr.get(instr.DeferStack); into != nil {
			defers = into.(**deferred)
		}
		*defers = &deferred{
			fn:    fn,
			args:  args,
			instr: instr,
			tail:  *defers,
		}

	case *ssa.Go:
		fn, args := prepareCall(fr, &instr.Call)
		in.spawn(fr, instr.Pos(), fn, args)

	case *ssa.MakeChan:
		fr.set(instr, in.makeChan(int(in.asInt(fr.get(instr.Size), 64)), instr.Type().Underlying().(*types.Chan).Elem()))

	case *ssa.Alloc:
		var addr *value
		if instr.Heap {
			addr = new(value)
			fr.set(instr, addr)
			*addr = zero(deref(instr.Type()))
		} else {
			addr = fr.get(instr).(*value)
			*addr = zero(deref(instr.Type()))
		}

	case *ssa.MakeSlice:
		c := in.asInt(fr.get(instr.Cap), 1<<16)
		l := in.asInt(fr.get(instr.Len), int(c))
		if l < 0 || c < l {
			panic(targetPanic{v: in.runtimeError("makeslice: len out of range")})
		}
		slice := make([]value, c)
		tElt := instr.Type().Underlying().(*types.Slice).Elem()
		for i := range slice {
			slice[i] = zero(tElt)
		}
		fr.set(instr, slice[:l])

	case *ssa.MakeMap:
		fr.set(instr, newOmap(instr.Type().Underlying().(*types.Map).Key()))

	case *ssa.Range:
		fr.set(instr, in.rangeIter(fr, fr.get(instr.X)))

	case *ssa.Next:
		fr.set(instr, fr.get(instr.Iter).(iter).next(in))

	case *ssa.FieldAddr:
		x := fr.get(instr.X)
		switch p := x.(type) {
		case *value:
			if p == nil {
				in.nilDeref()
			}
			fr.set(instr, &(*p).(structure)[instr.Field])
		case symAddr:
			k := in.concretizeInt(p.idx, len(p.base))
			fr.set(instr, &p.base[k].(structure)[instr.Field])
		default:
			unsupported("FieldAddr on %T", x)
		}

	case *ssa.Field:
		fr.set(instr, fr.get(instr.X).(structure)[instr.Field])

	case *ssa.IndexAddr:
		x := fr.get(instr.X)
		idx := fr.get(instr.Index)
		var base []value
		switch x := x.(type) {
		case []value:
			base = x
		case *value: // *array
			if x == nil {
				in.nilDeref()
			}
			base = (*x).(array)
		default:
			unsupported("unexpected x type in IndexAddr: %T", x)
		}
		if s, ok := idx.(*Sym); ok {
			t64 := in.to64(s)
			in.boundsCheck(t64, len(base))
			if onlyLoaded(instr) && scalarElems(base) {
				fr.set(instr, symAddr{base: base, idx: t64})
			} else {
				k := in.concretizeInt(t64, len(base))
				fr.set(instr, &base[k])
			}
		} else {
			i := asInt64(idx)
			if i < 0 || i >= int64(len(base)) {
				in.indexPanic(i, len(base))
			}
			fr.set(instr, &base[i])
		}

	case *ssa.Index:
		x := fr.get(instr.X)
		idx := fr.get(instr.Index)
		fr.set(instr, in.index(x, idx))

	case *ssa.Lookup:
		fr.set(instr, in.lookup(instr, fr.get(instr.X), fr.get(instr.Index)))

	case *ssa.MapUpdate:
		m := fr.get(instr.Map).(*omap)
		if m == nil {
			panic(targetPanic{v: in.runtimeError("assignment to entry in nil map")})
		}
		key := fr.get(instr.Key)
		v := fr.get(instr.Value)
		in.mapInsert(m, key, v)

	case *ssa.TypeAssert:
		fr.set(instr, in.typeAssert(instr, fr.get(instr.X).(iface)))

	case *ssa.MakeClosure:
		bindings := make([]value, 0, len(instr.Bindings))
		for _, binding := range instr.Bindings {
			bindings = append(bindings, fr.get(binding))
		}
		fr.set(instr, &closure{instr.Fn.(*ssa.Function), bindings})

	case *ssa.Phi:
		panic("unreachable: phis are processed at block entry")

	case *ssa.Select:
		fr.set(instr, in.selectOp(fr, instr))

	default:
		unsupported("unexpected instruction: %T", instr)
	}
	return kNext
}

// onlyLoaded reports whether every use of the address is a load.
func onlyLoaded(instr *ssa.IndexAddr) bool {
	refs := instr.Referrers()
	if refs == nil {
		return false
	}
	for _, r := range *refs {
		u, ok := r.(*ssa.UnOp)
		if !ok || u.Op != token.MUL {
			if _, dbg := r.(*ssa.DebugRef); dbg {
				continue
			}
			return false
		}
	}
	return true
}

func scalarElems(base []value) bool {
	if len(base) > 1024 {
		return false
	}
	for _, e := range base {
		switch e.(type) {
		case bool, int, int8, int16, int32, int64, uint, uint8, uint16, uint32, uint64, uintptr, *Sym:
		default:
			return false
		}
	}
	return true
}

func (in *Interp) nilDeref() {
	panic(targetPanic{v: in.runtimeError("invalid memory address or nil pointer dereference")})
}

func (in *Interp) indexPanic(i int64, n int) {
	panic(targetPanic{v: in.runtimeError(fmt.Sprintf("index out of range [%d] with length %d", i, n))})
}

// runtimeError makes a runtime.Error-like value for the target.
func (in *Interp) runtimeError(msg string) value {
	return iface{t: in.runtimeErrorType, v: "runtime error: " + msg}
}

// prepareCall determines the function value and argument values for a
// function call in a Call, Go or Defer instruction, performing
// interface method lookup if needed.
func prepareCall(fr *frame, call *ssa.CallCommon) (fn value, args []value) {
	v := fr.get(call.Value)
	if call.Method == nil {
		fn = v
	} else {
		recv := v.(iface)
		if recv.t == nil {
			panic(targetPanic{v: fr.i.runtimeError("invalid memory address or nil pointer dereference (method on nil interface)")})
		}
		if nf := fr.i.nativeMethod(recv.t, call.Method); nf != nil {
			fn = nf
		} else if f := fr.i.lookupMethod(recv.t, call.Method); f == nil {
			panic(fmt.Sprintf("method set for dynamic type %v does not contain %s", recv.t, call.Method))
		} else {
			fn = f
		}
		args = append(args, recv.v)
	}
	for _, arg := range call.Args {
		args = append(args, fr.get(arg))
	}
	return
}

// call interprets a call to a function (function, builtin or closure)
// fn with arguments args, returning its result.
func (in *Interp) call(caller *frame, callpos token.Pos, fn value, args []value) value {
	switch fn := fn.(type) {
	case *ssa.Function:
		if fn == nil {
			panic(targetPanic{v: in.runtimeError("invalid memory address or nil pointer dereference (call of nil func)")})
		}
		return in.callSSA(caller, callpos, fn, args, nil)
	case *closure:
		return in.callSSA(caller, callpos, fn.Fn, args, fn.Env)
	case *ssa.Builtin:
		return in.callBuiltin(caller, fn, args)
	case *nativeFn:
		return fn.fn(caller, args)
	}
	panic(fmt.Sprintf("cannot call %T", fn))
}

func fnName(fn *ssa.Function) string {
	return fn.String()
}

// callSSA interprets a call to function fn with arguments args,
// and lexical environment env, returning its result.
func (in *Interp) callSSA(caller *frame, callpos token.Pos, fn *ssa.Function, args []value, env []value) value {
	if in.trace {
		fmt.Fprintf(os.Stderr, "%*sEntering %s\n", in.depth(caller), "", fn)
	}
	var th *thread
	if caller != nil {
		th = caller.th
	} else if in.sched != nil {
		th = in.sched.cur
	}
	if fn.Parent() == nil {
		name := fnName(fn)
		if in.initDepth == 0 || true {
			if st, ok := in.stubs[name]; ok {
				in.usedStubs[name] = true
				return in.call(caller, callpos, st, args)
			}
		}
		if ext := lookupIntrinsic(fn, name); ext != nil {
			fr := &frame{i: in, caller: caller, fn: fn, th: th}
			if in.initDepth == 0 {
				in.usedIntrinsics[name] = true
			}
			return ext(fr, args)
		}
		if fn.Pkg != nil {
			if fn.Name() == "init" && fn.Synthetic != "" && in.pkgInit[fn.Pkg] != 1 {
				// imported package initialiser: initialise lazily instead
				return nil
			}
			in.ensureInit(fn.Pkg)
		}
		if fn.Blocks == nil {
			unsupported("no code for function: %s", name)
		}
	}
	if fn.TypeParams().Len() > 0 && len(fn.TypeArgs()) == 0 {
		unsupported("uninstantiated generic function %s", fn)
	}
	if in.summaryDepth == 0 && in.initDepth == 0 && in.cfg != nil && in.cfg.Summaries[fnName(fn)] && fn.Parent() == nil {
		if r, ok := in.summarize(caller, callpos, fn, args); ok {
			return r
		}
	}
	if in.initDepth == 0 && in.logging && fn.Pkg != nil {
		in.noteEncoded(fn)
	}

	info := in.info(fn)
	fr := &frame{
		i:      in,
		caller: caller,
		fn:     fn,
		info:   info,
		th:     th,
	}
	depth := len(in.callStack)
	in.callStack = append(in.callStack, fn)
	fr.depth = depth
	defer func() {
		if fr.block == nil {
			in.callStack = in.callStack[:depth]
		}
	}()
	fr.env = make([]value, info.n)
	fr.block = fn.Blocks[0]
	fr.locals = make([]value, len(fn.Locals))
	for i, l := range fn.Locals {
		fr.locals[i] = zero(deref(l.Type()))
		fr.env[info.idx[l]] = &fr.locals[i]
	}
	for i, p := range fn.Params {
		fr.env[info.idx[p]] = args[i]
	}
	for i, fv := range fn.FreeVars {
		fr.env[info.idx[fv]] = env[i]
	}
	for fr.block != nil {
		runFrame(fr)
	}
	return fr.result
}

func (in *Interp) depth(fr *frame) int {
	d := 0
	for ; fr != nil; fr = fr.caller {
		d++
	}
	return d
}

func (in *Interp) noteEncoded(fn *ssa.Function) {
	if fn.Pkg == nil {
		return
	}
	p := fn.Pkg.Pkg.Path()
	if strings.HasPrefix(p, "github.com/tucats/ego") && !strings.Contains(p, "zzverif") {
		in.encoded[fnName(fn)] = true
	}
}

// runFrame executes SSA instructions starting at fr.block and
// continuing until a return, a panic, or a recovered panic.
func runFrame(fr *frame) {
	defer func() {
		if fr.block == nil {
			return // normal return
		}
		r := recover()
		switch r.(type) {
		case targetPanic, goexitPanic:
		default:
			panic(r) // engine abort / path end: propagate without running target defers
		}
		if tp, ok := r.(targetPanic); ok && tp.stack == "" {
			tp.stack = fr.i.targetStack()
			r = tp
		}
		fr.panicking = true
		fr.panic = r
		if len(fr.i.callStack) > fr.depth+1 {
			fr.i.callStack = fr.i.callStack[:fr.depth+1]
		}
		if fr.i.trace {
			fmt.Fprintf(os.Stderr, "Panicking in %s: %v\n", fr.fn, r)
		}
		fr.runDefers()
		fr.block = fr.fn.Recover
		if fr.block == nil {
			// recovered in a function without named results: return zero values
			fr.result = zeroResult(fr.fn)
		}
	}()

	for {
		nonPhis := executePhis(fr)
		for _, instr := range nonPhis {
			if fr.i.trace {
				if v, ok := instr.(ssa.Value); ok {
					fmt.Fprintln(os.Stderr, strings.Repeat(" ", fr.i.depth(fr)), v.Name(), "=", instr)
				} else {
					fmt.Fprintln(os.Stderr, strings.Repeat(" ", fr.i.depth(fr)), instr)
				}
			}
			if visitInstr(fr, instr) == kReturn {
				return
			}
		}
	}
}

func zeroResult(fn *ssa.Function) value {
	res := fn.Signature.Results()
	switch res.Len() {
	case 0:
		return nil
	case 1:
		return zero(res.At(0).Type())
	}
	t := make(tuple, res.Len())
	for i := range t {
		t[i] = zero(res.At(i).Type())
	}
	return t
}

// executePhis executes the phi-nodes at the start of the current
// block and returns the non-phi instructions.
func executePhis(fr *frame) []ssa.Instruction {
	firstNonPhi := fr.info.firstNon[fr.block]
	nonPhis := fr.block.Instrs[firstNonPhi:]
	if firstNonPhi > 0 {
		phis := fr.block.Instrs[:firstNonPhi]
		predIndex := slices.Index(fr.block.Preds, fr.prevBlock)
		fr.phitemps = fr.phitemps[:0]
		for _, phi := range phis {
			phi := phi.(*ssa.Phi)
			fr.phitemps = append(fr.phitemps, fr.get(phi.Edges[predIndex]))
		}
		for i, phi := range phis {
			fr.set(phi.(*ssa.Phi), fr.phitemps[i])
		}
	}
	return nonPhis
}

// doRecover implements the recover() built-in.
func doRecover(caller *frame) value {
	// recover() must be exactly one level beneath the deferred
	// function (two levels beneath the panicking function) to
	// have any effect.
	if caller != nil && !caller.panicking &&
		caller.caller != nil && caller.caller.panicking {
		p := caller.caller.panic
		switch p := p.(type) {
		case targetPanic:
			caller.caller.panicking = false
			caller.caller.panic = nil
			return p.v
		case goexitPanic:
			return iface{} // Goexit cannot be recovered
		default:
			panic(fmt.Sprintf("unexpected panic type %T in target call to recover()", p))
		}
	}
	return iface{}
}
