package interp

import (
	"fmt"
	"go/token"

	"golang.org/x/tools/go/ssa"
)

func unopConcrete(instr *ssa.UnOp, x value) value {
	switch instr.Op {
	case token.SUB:
		switch x := x.(type) {
		case int:
			return -x
		case int8:
			return -x
		case int16:
			return -x
		case int32:
			return -x
		case int64:
			return -x
		case uint:
			return -x
		case uint8:
			return -x
		case uint16:
			return -x
		case uint32:
			return -x
		case uint64:
			return -x
		case uintptr:
			return -x
		case float32:
			return -x
		case float64:
			return -x
		case complex64:
			return -x
		case complex128:
			return -x
		}
	case token.NOT:
		return !x.(bool)
	case token.XOR:
		switch x := x.(type) {
		case int:
			return ^x
		case int8:
			return ^x
		case int16:
			return ^x
		case int32:
			return ^x
		case int64:
			return ^x
		case uint:
			return ^x
		case uint8:
			return ^x
		case uint16:
			return ^x
		case uint32:
			return ^x
		case uint64:
			return ^x
		case uintptr:
			return ^x
		}
	}
	panic(engineError{fmt.Sprintf("invalid unary op %s %T", instr.Op, x)})
}
