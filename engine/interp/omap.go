package interp

import (
	"fmt"
	"go/types"
	"strings"

	"golang.org/x/tools/go/ssa"
)

// omap is an insertion-ordered map. Keys that are fully concrete are indexed
// by a canonical Go-comparable key; keys with symbolic content live in the
// entry list only and are matched by (possibly forking) equality.
type omap struct {
	kt      types.Type
	entries []*mentry
	index   map[any]*mentry
	nsym    int // live entries with a symbolic key
	live    int
}

type mentry struct {
	key, val value
	dead     bool
	symkey   bool
}

func newOmap(kt types.Type) *omap {
	return &omap{kt: kt, index: map[any]*mentry{}}
}

func (m *omap) len() int {
	if m == nil {
		return 0
	}
	return m.live
}

// hasSym reports whether v contains symbolic content.
func hasSym(v value) bool {
	switch v := v.(type) {
	case *Sym, symString:
		return true
	case structure:
		for _, e := range v {
			if hasSym(e) {
				return true
			}
		}
	case array:
		for _, e := range v {
			if hasSym(e) {
				return true
			}
		}
	case iface:
		return hasSym(v.v)
	}
	return false
}

// ckey returns a Go-comparable canonical key for a concrete value.
func ckey(v value) any {
	switch v := v.(type) {
	case bool, int, int8, int16, int32, int64, uint, uint8, uint16, uint32, uint64, uintptr, float32, float64, complex64, complex128, string, *value, *chanObj, *ssa.Function:
		return v
	case unsafePtr:
		return ckey(v.p)
	case rtype:
		return "T:" + v.t.String()
	case iface:
		if v.t == nil {
			return "I:nil"
		}
		return fmt.Sprintf("I:%s:%v", v.t.String(), ckeyStr(v.v))
	default:
		return ckeyStr(v)
	}
}

func ckeyStr(v value) string {
	var sb strings.Builder
	writeKey(&sb, v)
	return sb.String()
}

func writeKey(sb *strings.Builder, v value) {
	switch v := v.(type) {
	case structure:
		sb.WriteString("{")
		for _, e := range v {
			writeKey(sb, e)
			sb.WriteString(",")
		}
		sb.WriteString("}")
	case array:
		sb.WriteString("[")
		for _, e := range v {
			writeKey(sb, e)
			sb.WriteString(",")
		}
		sb.WriteString("]")
	case iface:
		if v.t == nil {
			sb.WriteString("I:nil")
			return
		}
		sb.WriteString("I:" + v.t.String() + ":")
		writeKey(sb, v.v)
	case string:
		fmt.Fprintf(sb, "%q", v)
	case *value, *chanObj:
		fmt.Fprintf(sb, "%p", v)
	case rtype:
		sb.WriteString("T:" + v.t.String())
	default:
		fmt.Fprintf(sb, "%T:%v", v, v)
	}
}

// find returns the entry for key k, forking on symbolic equalities.
func (in *Interp) mapFind(m *omap, k value) *mentry {
	if m == nil {
		return nil
	}
	if !hasSym(k) {
		if e, ok := m.index[ckey(k)]; ok && !e.dead {
			return e
		}
		if m.nsym == 0 {
			return nil
		}
		for _, e := range m.entries {
			if e.dead || !e.symkey {
				continue
			}
			if in.truth(in.equals(m.kt, e.key, k)) {
				return e
			}
		}
		return nil
	}
	for _, e := range m.entries {
		if e.dead {
			continue
		}
		if in.truth(in.equals(m.kt, e.key, k)) {
			return e
		}
	}
	return nil
}

func (in *Interp) mapInsert(m *omap, k, v value) {
	if e := in.mapFind(m, k); e != nil {
		old := e.val
		e.val = v
		in.logUndo(func() { e.val = old })
		return
	}
	e := &mentry{key: k, val: v, symkey: hasSym(k)}
	m.entries = append(m.entries, e)
	m.live++
	var ck any
	if e.symkey {
		m.nsym++
	} else {
		ck = ckey(k)
		m.index[ck] = e
	}
	in.logUndo(func() {
		// entries are only ever appended, so popping restores order
		m.entries = m.entries[:len(m.entries)-1]
		m.live--
		if e.symkey {
			m.nsym--
		} else {
			delete(m.index, ck)
		}
	})
}

func (in *Interp) mapDelete(m *omap, k value) {
	e := in.mapFind(m, k)
	if e == nil {
		return
	}
	e.dead = true
	m.live--
	var ck any
	if e.symkey {
		m.nsym--
	} else {
		ck = ckey(e.key)
		delete(m.index, ck)
	}
	in.logUndo(func() {
		e.dead = false
		m.live++
		if e.symkey {
			m.nsym++
		} else {
			m.index[ck] = e
		}
	})
}

func (in *Interp) mapClear(m *omap) {
	for _, e := range m.entries {
		if !e.dead {
			in.mapDelete(m, e.key)
		}
	}
}

type mapIter struct {
	m     *omap
	order []*mentry
	i     int
}

func (it *mapIter) next(in *Interp) tuple {
	for it.i < len(it.order) {
		e := it.order[it.i]
		it.i++
		if e.dead {
			continue
		}
		return tuple{true, e.key, e.val}
	}
	return tuple{false, nil, nil}
}

func (in *Interp) newMapIter(m *omap) iter {
	it := &mapIter{m: m}
	if m == nil {
		return it
	}
	for _, e := range m.entries {
		if !e.dead {
			it.order = append(it.order, e)
		}
	}
	if in.nondetMapOrder && len(it.order) > 1 && len(it.order) <= 6 {
		// choose a permutation by a sequence of nondeterministic picks
		rest := it.order
		var out []*mentry
		for len(rest) > 1 {
			k := in.choose(len(rest), "maporder")
			out = append(out, rest[k])
			rest = append(append([]*mentry(nil), rest[:k]...), rest[k+1:]...)
		}
		it.order = append(out, rest...)
	}
	return it
}
