// Copyright 2013 The Go Authors. All rights reserved.
// Use of this source code is governed by a BSD-style
// license that can be found in the LICENSE file.
//
// Adapted from golang.org/x/tools/go/ssa/interp for symbolic execution.

package interp

// Values
//
// All interpreter values are "boxed" in the empty interface, value.
// The range of possible dynamic types within value are:
//
// - bool, numbers (all built-in int/float/complex types are distinguished), string
// - *Sym        --- a symbolic bool or integer (an SMT term plus its Go basic kind)
// - symString   --- a string of concrete length with at least one symbolic byte
// - *omap       --- maps (insertion ordered, so that re-execution is deterministic)
// - *chanObj    --- channels
// - []value     --- slices
// - iface       --- interfaces
// - structure   --- structs
// - array       --- arrays
// - *value      --- pointers
// - symAddr     --- &base[idx] with symbolic idx, only ever loaded from
// - *ssa.Function, *ssa.Builtin, *closure --- functions
// - tuple, iter, rtype, **deferred

import (
	"bytes"
	"fmt"
	"go/types"

	"golang.org/x/tools/go/ssa"
	"verif/engine/term"
)

type value any

type tuple []value

type array []value

type iface struct {
	t types.Type // never an "untyped" type
	v value
}

type structure []value

// Sym is a symbolic scalar.
type Sym struct {
	T *term.Term
	K types.BasicKind // Bool, Int..Uintptr
}

func (s *Sym) String() string { return fmt.Sprintf("sym<%s>", s.T) }

// symString is an immutable string whose length is concrete and whose bytes
// are uint8 or *Sym (kind Uint8). At least one byte is symbolic.
type symString struct {
	b []value
}

// symFloat is an exact rational num/div standing for a float64 that was
// produced from a symbolic integer (float64(x), Duration.Hours/Minutes/Seconds).
// It supports only negation, math.Abs, comparison with integer-valued floats
// and truncating conversion back to an integer; the claim that float64
// arithmetic is exact on the value range involved is a stated assumption of
// the harness that uses it.
type symFloat struct {
	num *term.Term // 64-bit signed
	div int64      // > 0
}

// symAddr is the address of base[idx] for a symbolic, in-range idx.
type symAddr struct {
	base []value
	idx  *term.Term // 64-bit
}

// unsafePtr boxes a pointer that was converted to unsafe.Pointer.
type unsafePtr struct {
	p value
}

type iter interface {
	// next returns a Tuple (ok, key, value).
	next(in *Interp) tuple
}

type closure struct {
	Fn  *ssa.Function
	Env []value
}

// nativeFn is a function value implemented by the engine.
type nativeFn struct {
	name string
	fn   func(fr *frame, args []value) value
}

type bad struct{}

type rtype struct {
	t types.Type
}

func (x array) eq(in *Interp, t types.Type, _y any) value {
	y := _y.(array)
	tElt := t.Underlying().(*types.Array).Elem()
	var acc value = true
	for i, xi := range x {
		acc = in.and(acc, in.equals(tElt, xi, y[i]))
		if acc == false {
			return false
		}
	}
	return acc
}

func (x structure) eq(in *Interp, t types.Type, _y any) value {
	y := _y.(structure)
	tStruct := t.Underlying().(*types.Struct)
	var acc value = true
	for i, n := 0, tStruct.NumFields(); i < n; i++ {
		if f := tStruct.Field(i); f.Name() != "_" {
			acc = in.and(acc, in.equals(f.Type(), x[i], y[i]))
			if acc == false {
				return false
			}
		}
	}
	return acc
}

// nil-tolerant variant of types.Identical.
func sameType(x, y types.Type) bool {
	if x == nil {
		return y == nil
	}
	return y != nil && types.Identical(x, y)
}

func (x iface) eq(in *Interp, t types.Type, _y any) value {
	y := _y.(iface)
	if !sameType(x.t, y.t) {
		return false
	}
	if x.t == nil {
		return true
	}
	return in.equals(x.t, x.v, y.v)
}

// equals returns x == y according to Go's equivalence relation for type t;
// the result is a bool or a symbolic bool.
func (in *Interp) equals(t types.Type, x, y value) value {
	if xs, ok := x.(*Sym); ok {
		return in.symEq(xs, y)
	}
	if ys, ok := y.(*Sym); ok {
		return in.symEq(ys, x)
	}
	if xf, ok := x.(symFloat); ok {
		return in.symFloatEq(xf, y)
	}
	if yf, ok := y.(symFloat); ok {
		return in.symFloatEq(yf, x)
	}
	switch x := x.(type) {
	case bool:
		return x == y.(bool)
	case int:
		return x == y.(int)
	case int8:
		return x == y.(int8)
	case int16:
		return x == y.(int16)
	case int32:
		return x == y.(int32)
	case int64:
		return x == y.(int64)
	case uint:
		return x == y.(uint)
	case uint8:
		return x == y.(uint8)
	case uint16:
		return x == y.(uint16)
	case uint32:
		return x == y.(uint32)
	case uint64:
		return x == y.(uint64)
	case uintptr:
		return x == y.(uintptr)
	case float32:
		return x == y.(float32)
	case float64:
		return x == y.(float64)
	case complex64:
		return x == y.(complex64)
	case complex128:
		return x == y.(complex128)
	case string:
		if ys, ok := y.(string); ok {
			return x == ys
		}
		return in.strEq(x, y)
	case symString:
		return in.strEq(x, y)
	case *value:
		return x == y.(*value)
	case *chanObj:
		return x == y.(*chanObj)
	case unsafePtr:
		yy, ok := y.(unsafePtr)
		return ok && x.p == yy.p
	case structure:
		return x.eq(in, t, y)
	case array:
		return x.eq(in, t, y)
	case iface:
		return x.eq(in, t, y)
	case rtype:
		return types.Identical(x.t, y.(rtype).t)
	case *ssa.Function:
		if yy, ok := y.(*ssa.Function); ok {
			return x == yy
		}
		return false
	}

	// Since map, func and slice don't support comparison, this
	// case is only reachable if one of x or y is literally nil
	// (handled in eqnil) or via interface{} values.
	panic(targetPanic{v: in.runtimeError(fmt.Sprintf("comparing uncomparable type %s", t))})
}

// load returns the value of type T in *addr.
func load(T types.Type, addr *value) value {
	switch T := T.Underlying().(type) {
	case *types.Struct:
		v := (*addr).(structure)
		a := make(structure, len(v))
		for i := range a {
			a[i] = load(T.Field(i).Type(), &v[i])
		}
		return a
	case *types.Array:
		v := (*addr).(array)
		a := make(array, len(v))
		for i := range a {
			a[i] = load(T.Elem(), &v[i])
		}
		return a
	default:
		return *addr
	}
}

// copyVal returns an unaliased copy of an aggregate value of type T.
func copyVal(T types.Type, v value) value {
	return load(T, &v)
}

// store stores value v of type T into *addr, logging old contents for undo.
func (in *Interp) store(T types.Type, addr *value, v value) {
	switch T := T.Underlying().(type) {
	case *types.Struct:
		lhs, ok := (*addr).(structure)
		if !ok {
			in.set(addr, copyVal(T, v))
			return
		}
		rhs := v.(structure)
		for i := range lhs {
			in.store(T.Field(i).Type(), &lhs[i], rhs[i])
		}
	case *types.Array:
		lhs, ok := (*addr).(array)
		if !ok {
			in.set(addr, copyVal(T, v))
			return
		}
		rhs := v.(array)
		for i := range lhs {
			in.store(T.Elem(), &lhs[i], rhs[i])
		}
	default:
		in.set(addr, v)
	}
}

// set assigns *addr = v with undo logging.
func (in *Interp) set(addr *value, v value) {
	if in.logging {
		in.undo = append(in.undo, undoRec{addr: addr, old: *addr})
	}
	*addr = v
}

// Prints in the style of built-in println.
func writeValue(buf *bytes.Buffer, v value) {
	switch v := v.(type) {
	case nil, bool, int, int8, int16, int32, int64, uint, uint8, uint16, uint32, uint64, uintptr, float32, float64, complex64, complex128, string:
		fmt.Fprintf(buf, "%v", v)
	case *Sym:
		buf.WriteString(v.String())
	case symString:
		buf.WriteString("symstr\"")
		for _, b := range v.b {
			if c, ok := b.(uint8); ok {
				buf.WriteByte(c)
			} else {
				buf.WriteString("?")
			}
		}
		buf.WriteString("\"")
	case *omap:
		fmt.Fprintf(buf, "map[%d entries]", v.len())
	case *chanObj:
		fmt.Fprintf(buf, "%p", v)
	case *value:
		if v == nil {
			buf.WriteString("<nil>")
		} else {
			fmt.Fprintf(buf, "%p", v)
		}
	case iface:
		fmt.Fprintf(buf, "(%s, ", v.t)
		writeValue(buf, v.v)
		buf.WriteString(")")
	case structure:
		buf.WriteString("{")
		for i, e := range v {
			if i > 0 {
				buf.WriteString(" ")
			}
			writeValue(buf, e)
		}
		buf.WriteString("}")
	case array:
		buf.WriteString("[")
		for i, e := range v {
			if i > 0 {
				buf.WriteString(" ")
			}
			writeValue(buf, e)
		}
		buf.WriteString("]")
	case []value:
		buf.WriteString("[")
		for i, e := range v {
			if i > 0 {
				buf.WriteString(" ")
			}
			if i > 16 {
				buf.WriteString("…")
				break
			}
			writeValue(buf, e)
		}
		buf.WriteString("]")
	case *ssa.Function, *ssa.Builtin, *closure:
		fmt.Fprintf(buf, "%p", v) // (an address)
	case rtype:
		buf.WriteString(v.t.String())
	case tuple:
		buf.WriteString("(")
		for i, e := range v {
			if i > 0 {
				buf.WriteString(", ")
			}
			writeValue(buf, e)
		}
		buf.WriteString(")")
	default:
		fmt.Fprintf(buf, "<%T>", v)
	}
}

func toString(v value) string {
	var b bytes.Buffer
	writeValue(&b, v)
	return b.String()
}
