package interp

import (
	"fmt"
	"go/token"
	"go/types"

	"golang.org/x/tools/go/ssa"
)

// Threads. Every target goroutine is a real Go goroutine, but exactly one of
// them runs at any time: control is handed over explicitly at yield points
// (synchronisation operations). Which runnable thread continues is a
// nondeterministic choice, i.e. a fork of the symbolic path.

type thread struct {
	id      int
	resume  chan struct{}
	done    bool
	started bool
	blocked func() bool // non-nil while blocked: reports whether it can proceed
	what    string
}

type scheduler struct {
	threads []*thread
	cur     *thread
	abort   any  // a panic value raised in a non-main thread, for the main thread to re-raise
	killing bool
	back    chan struct{} // signalled to the path driver when a killed thread has unwound
	multi   bool
}

func (in *Interp) startMainThread() {
	t := &thread{id: 0, resume: make(chan struct{}, 1), started: true}
	in.sched = &scheduler{threads: []*thread{t}, cur: t, back: make(chan struct{}, 64)}
}

func (s *scheduler) runnable() []*thread {
	var out []*thread
	for _, t := range s.threads {
		if t.done {
			continue
		}
		if t.blocked != nil && !t.blocked() {
			continue
		}
		out = append(out, t)
	}
	return out
}

// switchTo transfers control from the current thread to t and waits until
// control comes back to the caller's thread.
func (in *Interp) switchTo(me, t *thread) {
	s := in.sched
	if t == me {
		return
	}
	s.cur = t
	t.resume <- struct{}{}
	if me != nil && !me.done {
		in.waitTurn(me)
	}
}

func (in *Interp) waitTurn(me *thread) {
	<-me.resume
	s := in.sched
	if s.killing {
		panic(pathEnd{"killed"})
	}
	if s.abort != nil && me.id == 0 {
		a := s.abort
		s.abort = nil
		panic(a)
	}
}

// yield is a scheduling point: any runnable thread may continue.
func (in *Interp) yield(fr *frame) {
	s := in.sched
	if s == nil || !s.multi || in.initDepth > 0 {
		return
	}
	me := s.cur
	rs := s.runnable()
	if len(rs) <= 1 {
		if len(rs) == 1 && rs[0] != me {
			in.switchTo(me, rs[0])
		}
		return
	}
	k := in.choose(len(rs), "sched")
	in.switchTo(me, rs[k])
}

// block suspends the current thread until can() holds.
func (in *Interp) block(fr *frame, what string, can func() bool) {
	s := in.sched
	if can() {
		return
	}
	me := s.cur
	for !can() {
		me.blocked = can
		me.what = what
		rs := s.runnable()
		if len(rs) == 0 {
			me.blocked = nil
			in.deadlock(what)
		}
		k := 0
		if len(rs) > 1 {
			k = in.choose(len(rs), "sched")
		}
		in.switchTo(me, rs[k])
		me.blocked = nil
	}
}

func (in *Interp) deadlock(what string) {
	s := in.sched
	desc := "all goroutines are asleep - deadlock: " + what
	for _, t := range s.threads {
		if !t.done && t.blocked != nil {
			desc += fmt.Sprintf("; g%d blocked on %s", t.id, t.what)
		}
	}
	if s.cur.id != 0 {
		s.abort = targetPanic{v: in.runtimeError(desc)}
		// hand over to main, which re-raises
		main := s.threads[0]
		main.blocked = nil
		s.cur = main
		main.resume <- struct{}{}
		panic(pathEnd{"deadlock"})
	}
	panic(targetPanic{v: in.runtimeError(desc)})
}

func (in *Interp) spawn(fr *frame, pos token.Pos, fn value, args []value) {
	s := in.sched
	if in.initDepth > 0 {
		return // goroutines started by package initialisers are not modelled
	}
	if s == nil {
		unsupported("go statement outside a path")
	}
	if f, ok := fn.(*ssa.Function); ok && in.cfg.DropGo[f.String()] {
		in.usedStubs["go "+f.String()+" (dropped)"] = true
		return
	}
	s.multi = true
	t := &thread{id: len(s.threads), resume: make(chan struct{}, 1), started: true}
	s.threads = append(s.threads, t)
	go func() {
		<-t.resume
		if s.killing {
			t.done = true
			s.back <- struct{}{}
			return
		}
		func() {
			defer func() {
				r := recover()
				if r == nil {
					return
				}
				switch r.(type) {
				case goexitPanic:
				case pathEnd:
					if s.killing {
						return
					}
					s.abort = r
				default:
					s.abort = r
				}
			}()
			tfr := &frame{i: in, th: t}
			in.call(tfr, pos, fn, args)
		}()
		t.done = true
		if s.killing {
			s.back <- struct{}{}
			return
		}
		// thread exit: pass control on
		var next *thread
		if s.abort != nil {
			next = s.threads[0]
			next.blocked = nil
		} else {
			rs := s.runnable()
			if len(rs) == 0 {
				// everyone else is blocked: deadlock, reported via main
				s.abort = targetPanic{v: in.runtimeError("all goroutines are asleep - deadlock (after goroutine exit)")}
				next = s.threads[0]
				next.blocked = nil
			} else {
				k := 0
				if len(rs) > 1 {
					func() {
						defer func() {
							if r := recover(); r != nil {
								s.abort = r
								k = -1
							}
						}()
						k = in.choose(len(rs), "sched")
					}()
				}
				if k < 0 {
					next = s.threads[0]
					next.blocked = nil
				} else {
					next = rs[k]
				}
			}
		}
		s.cur = next
		next.resume <- struct{}{}
	}()
	// No scheduling point here: for data-race-free code it suffices to switch
	// threads immediately before acquire-type operations (lock, atomic, channel
	// operations) and when a thread blocks or ends; the new thread becomes
	// runnable and is considered at the parent's next such point.
}

// finishThreads runs remaining runnable threads to quiescence after the
// harness function has returned (like a test waiting a little).
func (in *Interp) finishThreads() {
	s := in.sched
	if s == nil || !s.multi {
		return
	}
	me := s.threads[0]
	for {
		var rs []*thread
		for _, t := range s.runnable() {
			if t != me {
				rs = append(rs, t)
			}
		}
		if len(rs) == 0 {
			return
		}
		k := 0
		if len(rs) > 1 {
			k = in.choose(len(rs), "sched")
		}
		in.switchTo(me, rs[k])
	}
}

// liveThreads counts threads other than main that have not finished.
func (in *Interp) liveThreads() int {
	n := 0
	if in.sched == nil {
		return 0
	}
	for _, t := range in.sched.threads[1:] {
		if !t.done {
			n++
		}
	}
	return n
}

func (in *Interp) killThreads() {
	s := in.sched
	if s == nil {
		return
	}
	s.killing = true
	for _, t := range s.threads[1:] {
		if !t.done {
			t.resume <- struct{}{}
			<-s.back
		}
	}
	in.sched = nil
}

// ------------------------------------------------------------------ channels

type chanObj struct {
	capn    int
	buf     []value
	closed  bool
	pending []*sendReq // unbuffered hand-off
	recvW   int        // receivers currently waiting
	elem    types.Type
}

type sendReq struct {
	v     value
	taken bool
}

func (c *chanObj) length() int {
	if c == nil {
		return 0
	}
	return len(c.buf)
}
func (c *chanObj) capacity() int {
	if c == nil {
		return 0
	}
	return c.capn
}

func (in *Interp) makeChan(n int, elem types.Type) *chanObj {
	return &chanObj{capn: n, elem: elem}
}

func (in *Interp) chanSend(fr *frame, c *chanObj, v value) {
	in.yield(fr)
	if c == nil {
		in.block(fr, "send on nil channel", func() bool { return false })
	}
	if c.closed {
		panic(targetPanic{v: in.runtimeError("send on closed channel")})
	}
	if c.capn > 0 {
		in.block(fr, "chan send", func() bool { return len(c.buf) < c.capn || c.closed })
		if c.closed {
			panic(targetPanic{v: in.runtimeError("send on closed channel")})
		}
		c.buf = append(c.buf, v)
		in.logUndo(func() { c.buf = c.buf[:len(c.buf)-1] })
		return
	}
	req := &sendReq{v: v}
	c.pending = append(c.pending, req)
	in.logUndo(func() { c.pending = nil })
	in.block(fr, "chan send", func() bool { return req.taken || c.closed })
	if !req.taken && c.closed {
		panic(targetPanic{v: in.runtimeError("send on closed channel")})
	}
}

func (c *chanObj) canRecv() bool {
	return len(c.buf) > 0 || c.closed || c.firstPending() != nil
}

func (c *chanObj) firstPending() *sendReq {
	for _, r := range c.pending {
		if !r.taken {
			return r
		}
	}
	return nil
}

func (in *Interp) recvNow(c *chanObj) (value, bool) {
	if len(c.buf) > 0 {
		v := c.buf[0]
		old := c.buf
		c.buf = c.buf[1:]
		in.logUndo(func() { c.buf = old })
		return v, true
	}
	if r := c.firstPending(); r != nil {
		r.taken = true
		in.logUndo(func() { r.taken = false })
		return r.v, true
	}
	return zero(c.elem), false
}

func (in *Interp) chanRecv(fr *frame, instr *ssa.UnOp, c *chanObj) value {
	in.yield(fr)
	if c == nil {
		in.block(fr, "receive from nil channel", func() bool { return false })
	}
	c.recvW++
	in.block(fr, "chan receive", c.canRecv)
	c.recvW--
	v, ok := in.recvNow(c)
	if instr.CommaOk {
		return tuple{v, ok}
	}
	return v
}

func (in *Interp) chanClose(fr *frame, c *chanObj) {
	if c == nil {
		panic(targetPanic{v: in.runtimeError("close of nil channel")})
	}
	if c.closed {
		panic(targetPanic{v: in.runtimeError("close of closed channel")})
	}
	c.closed = true
	in.logUndo(func() { c.closed = false })
	in.yield(fr)
}

func (in *Interp) selectOp(fr *frame, instr *ssa.Select) value {
	in.yield(fr)
	type cs struct {
		c    *chanObj
		send bool
		v    value
	}
	cases := make([]cs, len(instr.States))
	for i, st := range instr.States {
		ch, _ := fr.get(st.Chan).(*chanObj)
		cases[i] = cs{c: ch, send: st.Dir == types.SendOnly}
		if cases[i].send {
			cases[i].v = fr.get(st.Send)
		}
	}
	ready := func() []int {
		var out []int
		for i, c := range cases {
			if c.c == nil {
				continue
			}
			if c.send {
				if c.c.closed || (c.c.capn > 0 && len(c.c.buf) < c.c.capn) || (c.c.capn == 0 && c.c.recvW > 0) {
					out = append(out, i)
				}
			} else if c.c.canRecv() {
				out = append(out, i)
			}
		}
		return out
	}
	rs := ready()
	if len(rs) == 0 {
		if !instr.Blocking {
			return in.selectResult(instr, -1, nil, false)
		}
		for _, c := range cases {
			if c.c != nil && !c.send {
				c.c.recvW++
			}
		}
		in.block(fr, "select", func() bool { return len(ready()) > 0 })
		for _, c := range cases {
			if c.c != nil && !c.send {
				c.c.recvW--
			}
		}
		rs = ready()
	}
	k := rs[0]
	if len(rs) > 1 {
		k = rs[in.choose(len(rs), "select")]
	}
	c := cases[k]
	if c.send {
		if c.c.closed {
			panic(targetPanic{v: in.runtimeError("send on closed channel")})
		}
		if c.c.capn > 0 {
			c.c.buf = append(c.c.buf, c.v)
			in.logUndo(func() { c.c.buf = c.c.buf[:len(c.c.buf)-1] })
		} else {
			req := &sendReq{v: c.v}
			c.c.pending = append(c.c.pending, req)
			in.block(fr, "select send hand-off", func() bool { return req.taken || c.c.closed })
		}
		return in.selectResult(instr, k, nil, false)
	}
	v, ok := in.recvNow(c.c)
	return in.selectResult(instr, k, v, ok)
}

func (in *Interp) selectResult(instr *ssa.Select, chosen int, recv value, recvOk bool) value {
	r := tuple{chosen, recvOk}
	for i, st := range instr.States {
		if st.Dir == types.RecvOnly {
			var v value
			if i == chosen && recvOk {
				v = recv
			} else {
				v = zero(st.Chan.Type().Underlying().(*types.Chan).Elem())
			}
			r = append(r, v)
		}
	}
	return r
}
