package interp

import (
	"fmt"
	"go/token"
	"go/types"

	"golang.org/x/tools/go/ssa"
	"verif/engine/term"
)

// Pure-callee summaries: a designated function called with symbolic scalar
// arguments is explored exhaustively (syntactically: no feasibility queries),
// and its (path condition, result) pairs are merged into one ite term, so the
// caller does not fork. Any side effect, panic or concretization inside makes
// the summary fail and the call is executed (and forked) normally.

type sumState struct {
	prefix []bool
	pos    int
	trace  []bool
	conds  []*term.Term
}

func (in *Interp) summaryBranch(c *term.Term) bool {
	s := in.sum
	var taken bool
	if s.pos < len(s.prefix) {
		taken = s.prefix[s.pos]
	} else {
		taken = true
	}
	s.pos++
	s.trace = append(s.trace, taken)
	if taken {
		s.conds = append(s.conds, c)
	} else {
		s.conds = append(s.conds, in.ts.Not(c))
	}
	return taken
}

func scalarResult(v value) bool {
	switch v := v.(type) {
	case bool, int, int8, int16, int32, int64, uint, uint8, uint16, uint32, uint64, uintptr, *Sym:
		return true
	case tuple:
		for _, e := range v {
			if !scalarResult(e) {
				return false
			}
		}
		return true
	}
	return false
}

type sumKey struct {
	e      *sumEntry
	a0, a1 uint32
}

type sumEntry struct {
	params []*term.Term // placeholder variables, nil for non-scalar parameters
	kinds  []types.BasicKind
	res    []*term.Term // result terms over the placeholders
	rkinds []types.BasicKind
	tuple  bool
	failed bool
}

// summarize returns the result of calling fn on args through its cached
// summary (computed once per worker over placeholder variables).
func (in *Interp) summarize(caller *frame, pos token.Pos, fn *ssa.Function, args []value) (res value, ok bool) {
	any := false
	for _, a := range args {
		switch a.(type) {
		case *Sym:
			any = true
		case bool, int, int8, int16, int32, int64, uint, uint8, uint16, uint32, uint64, uintptr:
		default:
			return nil, false // only scalar parameters are summarised
		}
	}
	if !any {
		return nil, false
	}
	e := in.sumCache[fn]
	if e == nil {
		e = in.buildSummary(caller, pos, fn, args)
		in.sumCache[fn] = e
	}
	if e.failed {
		return nil, false
	}
	sub := map[string]*term.Term{}
	for i, p := range e.params {
		if kindOf(args[i]) != e.kinds[i] {
			return nil, false
		}
		sub[p.Name] = in.toTerm(args[i])
	}
	in.ex.mu.Lock()
	in.ex.res.Summarized[fnName(fn)]++
	in.ex.mu.Unlock()
	if !e.tuple && len(args) <= 2 {
		key := sumKey{e: e, a0: in.toTerm(args[0]).ID}
		if len(args) == 2 {
			key.a1 = in.toTerm(args[1]).ID
		}
		if r, hit := in.sumInst[key]; hit {
			return in.fromTerm(r, e.rkinds[0]), true
		}
		r := in.ts.Subst(e.res[0], sub, map[uint32]*term.Term{})
		in.sumInst[key] = r
		return in.fromTerm(r, e.rkinds[0]), true
	}
	memo := map[uint32]*term.Term{}
	if !e.tuple {
		return in.fromTerm(in.ts.Subst(e.res[0], sub, memo), e.rkinds[0]), true
	}
	out := make(tuple, len(e.res))
	for i := range e.res {
		out[i] = in.fromTerm(in.ts.Subst(e.res[i], sub, memo), e.rkinds[i])
	}
	return out, true
}

func (in *Interp) buildSummary(caller *frame, pos token.Pos, fn *ssa.Function, args []value) (e *sumEntry) {
	e = &sumEntry{}
	formal := make([]value, len(args))
	for i, a := range args {
		k := kindOf(a)
		v := in.ts.Var(fmt.Sprintf("__sum.%s.p%d", fn.Name(), i), kindWidth(k))
		e.params = append(e.params, v)
		e.kinds = append(e.kinds, k)
		formal[i] = &Sym{T: v, K: k}
	}
	type cs struct {
		cond *term.Term
		res  value
	}
	var cases []cs
	stack := [][]bool{nil}
	mark := len(in.undo)
	savedSum := in.sum
	restore := func() {
		for i := len(in.undo) - 1; i >= mark; i-- {
			u := in.undo[i]
			if u.fn != nil {
				u.fn()
			} else {
				*u.addr = u.old
			}
		}
		in.undo = in.undo[:mark]
	}
	defer func() {
		in.sum = savedSum
		in.summaryDepth = 0
		if r := recover(); r != nil {
			restore()
			if ee, isEE := r.(engineError); isEE && len(ee.msg) > 7 && ee.msg[:7] == "budget:" {
				panic(r)
			}
			e.failed = true
		}
	}()
	for len(stack) > 0 {
		pre := stack[len(stack)-1]
		stack = stack[:len(stack)-1]
		in.sum = &sumState{prefix: pre}
		in.summaryDepth = 1
		r := in.callSSAraw(caller, pos, fn, formal)
		in.summaryDepth = 0
		restore()
		if !scalarResult(r) {
			e.failed = true
			return e
		}
		s := in.sum
		cases = append(cases, cs{in.ts.And(s.conds...), r})
		for i := len(pre); i < len(s.trace); i++ {
			alt := append(append([]bool(nil), s.trace[:i]...), !s.trace[i])
			stack = append(stack, alt)
		}
		if len(cases) > 512 {
			e.failed = true
			return e
		}
	}
	merge := func(get func(value) value) (*term.Term, types.BasicKind) {
		last := get(cases[len(cases)-1].res)
		k := kindOf(last)
		t := in.toTerm(last)
		for i := len(cases) - 2; i >= 0; i-- {
			t = in.ts.Ite(cases[i].cond, in.toTerm(get(cases[i].res)), t)
		}
		return t, k
	}
	if tp, isT := cases[0].res.(tuple); isT {
		e.tuple = true
		for j := range tp {
			j := j
			t, k := merge(func(v value) value { return v.(tuple)[j] })
			e.res = append(e.res, t)
			e.rkinds = append(e.rkinds, k)
		}
		return e
	}
	t, k := merge(func(v value) value { return v })
	e.res = []*term.Term{t}
	e.rkinds = []types.BasicKind{k}
	return e
}

// callSSAraw runs fn's body without stub/intrinsic/summary dispatch at the top.
func (in *Interp) callSSAraw(caller *frame, pos token.Pos, fn *ssa.Function, args []value) value {
	f := &frame{i: in, caller: caller, fn: fn}
	if caller != nil {
		f.th = caller.th
	}
	return in.interpretBody(f, args)
}

