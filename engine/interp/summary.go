package interp

import (
	"go/token"
	"go/types"

	"golang.org/x/tools/go/ssa"
	"verif/engine/term"
)

// Pure-callee summaries: a designated function called with symbolic scalar
// arguments is explored exhaustively (syntactically: no feasibility queries),
// and its (path condition, result) pairs are merged into one ite term, so the
// caller does not fork. Any side effect, panic or concretization inside makes
// the summary fail and the call is executed (and forked) normally.

type sumState struct {
	prefix []bool
	pos    int
	trace  []bool
	conds  []*term.Term
}

func (in *Interp) summaryBranch(c *term.Term) bool {
	s := in.sum
	var taken bool
	if s.pos < len(s.prefix) {
		taken = s.prefix[s.pos]
	} else {
		taken = true
	}
	s.pos++
	s.trace = append(s.trace, taken)
	if taken {
		s.conds = append(s.conds, c)
	} else {
		s.conds = append(s.conds, in.ts.Not(c))
	}
	return taken
}

func scalarResult(v value) bool {
	switch v := v.(type) {
	case bool, int, int8, int16, int32, int64, uint, uint8, uint16, uint32, uint64, uintptr, *Sym:
		return true
	case tuple:
		for _, e := range v {
			if !scalarResult(e) {
				return false
			}
		}
		return true
	}
	return false
}

func (in *Interp) summarize(caller *frame, pos token.Pos, fn *ssa.Function, args []value) (res value, ok bool) {
	any := false
	for _, a := range args {
		if hasSym(a) {
			any = true
		}
	}
	if !any {
		return nil, false
	}
	type cs struct {
		cond *term.Term
		res  value
	}
	var cases []cs
	stack := [][]bool{nil}
	mark := len(in.undo)
	savedSum := in.sum
	defer func() {
		in.sum = savedSum
		in.summaryDepth = 0
		if r := recover(); r != nil {
			// restore and fall back to ordinary execution
			for i := len(in.undo) - 1; i >= mark; i-- {
				u := in.undo[i]
				if u.fn != nil {
					u.fn()
				} else {
					*u.addr = u.old
				}
			}
			in.undo = in.undo[:mark]
			if ee, isEE := r.(engineError); isEE && len(ee.msg) > 7 && ee.msg[:7] == "budget:" {
				panic(r)
			}
			res, ok = nil, false
		}
	}()
	for len(stack) > 0 {
		pre := stack[len(stack)-1]
		stack = stack[:len(stack)-1]
		in.sum = &sumState{prefix: pre}
		in.summaryDepth = 1
		r := in.callSSAraw(caller, pos, fn, args)
		in.summaryDepth = 0
		if len(in.undo) != mark {
			// writes happened: only frame-local ones are harmless, and we cannot tell
			for i := len(in.undo) - 1; i >= mark; i-- {
				u := in.undo[i]
				if u.fn != nil {
					u.fn()
				} else {
					*u.addr = u.old
				}
			}
			in.undo = in.undo[:mark]
		}
		if !scalarResult(r) {
			return nil, false
		}
		s := in.sum
		cases = append(cases, cs{in.ts.And(s.conds...), r})
		for i := len(pre); i < len(s.trace); i++ {
			alt := append(append([]bool(nil), s.trace[:i]...), !s.trace[i])
			stack = append(stack, alt)
		}
		if len(cases) > 512 {
			return nil, false
		}
	}
	in.ex.mu.Lock()
	in.ex.res.Summarized[fnName(fn)]++
	in.ex.mu.Unlock()
	merge := func(get func(value) value) value {
		last := get(cases[len(cases)-1].res)
		k := kindOf(last)
		t := in.toTerm(last)
		for i := len(cases) - 2; i >= 0; i-- {
			t = in.ts.Ite(cases[i].cond, in.toTerm(get(cases[i].res)), t)
		}
		return in.fromTerm(t, k)
	}
	if tp, isT := cases[0].res.(tuple); isT {
		out := make(tuple, len(tp))
		for j := range tp {
			j := j
			out[j] = merge(func(v value) value { return v.(tuple)[j] })
		}
		return out, true
	}
	return merge(func(v value) value { return v }), true
}

// callSSAraw runs fn's body without stub/intrinsic/summary dispatch at the top.
func (in *Interp) callSSAraw(caller *frame, pos token.Pos, fn *ssa.Function, args []value) value {
	f := &frame{i: in, caller: caller, fn: fn}
	if caller != nil {
		f.th = caller.th
	}
	return in.interpretBody(f, args)
}

var _ = types.Bool
