package interp

import (
	"fmt"
	"go/token"
	"go/types"
	"os"
	"runtime/debug"
	"sort"
	"strings"
	"sync"
	"time"

	"golang.org/x/tools/go/ssa"
	"verif/engine/solver"
	"verif/engine/term"
)

// Decision is one recorded fork outcome; a path is identified by its list.
type Decision struct {
	Taken  bool
	HasVal bool
	Val    uint64
}

type Config struct {
	Prog          *ssa.Program
	Stubs         map[string]string // target full name -> replacement full name
	Summaries     map[string]bool
	MaxSteps      int64 // per path
	MaxPaths      int64
	QueryTimeout  int // ms
	Workers       int
	Solver        string
	Trace         bool
	Deadline      time.Time
	MaxViolations int
	Concrete      map[string]uint64 // when non-nil: run one concrete path with these inputs
	Tier          string
	DropGo        map[string]bool // functions whose `go` statements are not modelled (background workers driven explicitly by the harness)
	PanicOnly bool // assertions of the harness are ignored: only target panics count
	KnownActive   map[string]bool // known-finding class ids that are active (status "known")
}

type Violation struct {
	Harness  string            `json:"harness"`
	Kind     string            `json:"kind"` // assert | panic | deadlock | leak
	Msg      string            `json:"msg"`
	Inputs   map[string]uint64 `json:"inputs"`
	Vars     []SymVar          `json:"vars"`
	KnownIDs []string          `json:"known,omitempty"`
	Stack    string            `json:"stack,omitempty"`
}

type PathSample struct {
	Outcome   string            `json:"outcome"`
	Decisions int               `json:"decisions"`
	PCSize    int               `json:"pc_conjuncts"`
	Inputs    map[string]uint64 `json:"inputs,omitempty"`
	Steps     int64             `json:"ssa_instructions"`
	Observed  []Observation     `json:"observed,omitempty"`
}

type Result struct {
	Harness      string
	Paths        map[string]int64 // outcome -> count
	States       int64
	Steps        int64
	Forks        int64
	Queries      solver.Stats
	Violations   []Violation
	KnownHits    map[string]Violation
	Reached      map[string]bool
	ReachModels  map[string]map[string]uint64
	Inconclusive map[string]int
	Samples      []PathSample
	Intrinsics   map[string]bool
	StubsUsed    map[string]bool
	Encoded      map[string]bool
	Assumes      int64
	Asserts      int64
	AssertsProved int64
	DomainDecided int64
	Summarized   map[string]int
	Observations [][]Observation
	Wall         time.Duration
	Bounds       []string
	ReachLabels  []string
	boundSeen    map[string]bool
}

type workItem struct {
	prefix []Decision
	model  map[string]uint64
}

type Explorer struct {
	cfg     *Config
	fn      *ssa.Function
	mu      sync.Mutex
	cond    *sync.Cond
	queue   []*workItem
	active  int
	stop    bool
	res     *Result
	nviol   map[string]int
	violPaths int
	pathCnt int64
}

func Explore(cfg *Config, fn *ssa.Function) *Result {
	ex := &Explorer{cfg: cfg, fn: fn, nviol: map[string]int{}}
	ex.cond = sync.NewCond(&ex.mu)
	ex.res = &Result{
		Harness: fn.Name(), Paths: map[string]int64{}, KnownHits: map[string]Violation{},
		Reached: map[string]bool{}, ReachModels: map[string]map[string]uint64{}, Inconclusive: map[string]int{},
		Intrinsics: map[string]bool{}, StubsUsed: map[string]bool{}, Encoded: map[string]bool{}, Summarized: map[string]int{},
	}
	ex.res.boundSeen = map[string]bool{}
	ex.res.ReachLabels = reachLabels(fn)
	start := time.Now()
	ex.queue = append(ex.queue, &workItem{model: map[string]uint64{}})
	if cfg.Concrete != nil {
		ex.queue[0].model = cfg.Concrete
	}
	n := cfg.Workers
	if n < 1 {
		n = 1
	}
	var wg sync.WaitGroup
	for w := 0; w < n; w++ {
		wg.Add(1)
		go func(id int) {
			defer wg.Done()
			ex.worker(id)
		}(w)
	}
	wg.Wait()
	ex.res.Wall = time.Since(start)
	return ex.res
}

func (ex *Explorer) take() *workItem {
	ex.mu.Lock()
	defer ex.mu.Unlock()
	for {
		if ex.stop {
			return nil
		}
		if n := len(ex.queue); n > 0 {
			it := ex.queue[n-1]
			ex.queue = ex.queue[:n-1]
			ex.active++
			return it
		}
		if ex.active == 0 {
			ex.cond.Broadcast()
			return nil
		}
		ex.cond.Wait()
	}
}

func (ex *Explorer) done() {
	ex.mu.Lock()
	ex.active--
	if ex.active == 0 && len(ex.queue) == 0 {
		ex.cond.Broadcast()
	}
	ex.mu.Unlock()
}

func (ex *Explorer) push(it *workItem) {
	ex.mu.Lock()
	ex.queue = append(ex.queue, it)
	ex.res.Forks++
	ex.cond.Signal()
	ex.mu.Unlock()
}

func (ex *Explorer) inconclusive(reason string) {
	ex.mu.Lock()
	ex.res.Inconclusive[reason]++
	ex.mu.Unlock()
}

func NewInterp(cfg *Config, id int) *Interp {
	in := &Interp{
		prog:    cfg.Prog,
		globals: map[*ssa.Global]*value{},
		pkgInit: map[*ssa.Package]int{},
		fninfo:  map[*ssa.Function]*fnInfo{},
		sizes:   &types.StdSizes{WordSize: 8, MaxAlign: 8},
		trace:   cfg.Trace,
		cfg:     cfg,
		id:      id,
		stubs:   map[string]value{},
		syncMaps: map[*value]*omap{},
	}
	if rt := cfg.Prog.ImportedPackage("runtime"); rt != nil {
		in.runtimeErrorType = rt.Type("errorString").Object().Type()
	}
	in.resetPath(nil, nil)
	return in
}

// resolveStubs maps stub directives to function values.
func (in *Interp) resolveStubs(byName map[string]*ssa.Function) error {
	for target, repl := range in.cfg.Stubs {
		f, ok := byName[repl]
		if !ok {
			return fmt.Errorf("stub replacement %q not found", repl)
		}
		if _, ok := byName[target]; !ok {
			return fmt.Errorf("stub target %q not found in program", target)
		}
		in.stubs[target] = f
	}
	return nil
}

func (in *Interp) resetPath(prefix []Decision, model map[string]uint64) {
	if in.ts == nil || in.ts.Size() > 400000 {
		in.ts = term.NewStore()
		in.sumCache = map[*ssa.Function]*sumEntry{}
		in.sumInst = map[sumKey]*term.Term{}
		in.ev = &term.Evaluator{}
		in.dev = &term.Evaluator{}
	}
	in.pc = nil
	in.pcSet = map[uint32]bool{}
	in.doms = map[string]*domain{}
	in.multiVars = map[string]bool{}
	in.asserted = 0
	in.solFresh = false
	in.model = model
	if in.model == nil {
		in.model = map[string]uint64{}
	}
	in.ev.NewGen()
	in.prefix = prefix
	in.pos = 0
	in.decisions = nil
	in.symSeq = map[string]int{}
	in.symVars = nil
	in.steps = 0
	in.nondetMapOrder = false
	in.known = nil
	in.reached = map[string]bool{}
	in.observes = nil
	in.clockLast = nil
	in.clockFirst = nil
	in.clockSpan = 0
	in.clockHalf = nil
	in.uuidSeq = 0
	in.usedIntrinsics = map[string]bool{}
	in.usedStubs = map[string]bool{}
	in.encoded = map[string]bool{}
	in.sched = nil
	in.callStack = in.callStack[:0]
}

func (in *Interp) rollback() {
	for i := len(in.undo) - 1; i >= 0; i-- {
		u := in.undo[i]
		if u.fn != nil {
			u.fn()
		} else {
			*u.addr = u.old
		}
	}
	in.undo = in.undo[:0]
}

func (in *Interp) logUndo(fn func()) {
	if in.logging {
		in.undo = append(in.undo, undoRec{fn: fn})
	}
}

func (in *Interp) checkBudget() {
	if in.initDepth > 0 {
		return
	}
	if in.cfg.MaxSteps > 0 && in.steps > in.cfg.MaxSteps {
		panic(engineError{"budget: per-path instruction budget exhausted"})
	}
	if !in.cfg.Deadline.IsZero() && time.Now().After(in.cfg.Deadline) {
		panic(engineError{"budget: wall-clock deadline reached"})
	}
}

func (ex *Explorer) worker(id int) {
	in := NewInterp(ex.cfg, id)
	in.ex = ex
	byName := FunctionsByName(ex.cfg.Prog)
	if err := in.resolveStubs(byName); err != nil {
		ex.inconclusive("stub: " + err.Error())
		ex.mu.Lock()
		ex.stop = true
		ex.cond.Broadcast()
		ex.mu.Unlock()
		return
	}
	sol, err := solver.New(ex.cfg.Solver, ex.cfg.QueryTimeout)
	if err != nil {
		ex.inconclusive("solver: " + err.Error())
		return
	}
	defer sol.Close()
	if p := os.Getenv("SYMGO_SMTLOG"); p != "" {
		if id != 0 {
			p = fmt.Sprintf("%s.%d", p, id)
		}
		if f, err := os.Create(p); err == nil {
			sol.Log = f
			defer f.Close()
		}
	}
	in.sol = sol
	for {
		it := ex.take()
		if it == nil {
			break
		}
		ex.runPath(in, it)
		ex.done()
	}
	ex.mu.Lock()
	ex.res.Queries.Sat += sol.Stats.Sat
	ex.res.Queries.Unsat += sol.Stats.Unsat
	ex.res.Queries.Unknown += sol.Stats.Unknown
	ex.res.Queries.Errors += sol.Stats.Errors
	ex.res.Queries.Time += sol.Stats.Time
	ex.mu.Unlock()
}

var fnIndexMu sync.Mutex
var fnIndex = map[*ssa.Program]map[string]*ssa.Function{}

// FunctionsByName indexes every function and method of the program.
func FunctionsByName(prog *ssa.Program) map[string]*ssa.Function {
	fnIndexMu.Lock()
	defer fnIndexMu.Unlock()
	if m, ok := fnIndex[prog]; ok {
		return m
	}
	m := map[string]*ssa.Function{}
	for _, pkg := range prog.AllPackages() {
		for _, mem := range pkg.Members {
			switch mem := mem.(type) {
			case *ssa.Function:
				m[mem.String()] = mem
			case *ssa.Type:
				for _, T := range []types.Type{mem.Type(), types.NewPointer(mem.Type())} {
					ms := prog.MethodSets.MethodSet(T)
					for i := 0; i < ms.Len(); i++ {
						if f := prog.MethodValue(ms.At(i)); f != nil {
							if _, ok := m[f.String()]; !ok {
								m[f.String()] = f
							}
						}
					}
				}
			}
		}
	}
	fnIndex[prog] = m
	return m
}

func (ex *Explorer) runPath(in *Interp, it *workItem) {
	ex.mu.Lock()
	ex.pathCnt++
	over := ex.cfg.MaxPaths > 0 && ex.pathCnt > ex.cfg.MaxPaths
	ex.mu.Unlock()
	if over {
		ex.inconclusive("budget: path cap reached")
		ex.mu.Lock()
		ex.stop = true
		ex.cond.Broadcast()
		ex.mu.Unlock()
		return
	}
	if !ex.cfg.Deadline.IsZero() && time.Now().After(ex.cfg.Deadline) {
		ex.inconclusive("budget: wall-clock deadline reached before the exploration finished")
		ex.mu.Lock()
		ex.stop = true
		ex.cond.Broadcast()
		ex.mu.Unlock()
		return
	}
	in.resetPath(it.prefix, it.model)
	in.logging = true
	outcome := "completed"
	var detail string
	func() {
		defer func() {
			r := recover()
			if r == nil {
				return
			}
			switch r := r.(type) {
			case pathEnd:
				outcome = "pruned"
				detail = r.reason
			case engineError:
				outcome = "unsupported"
				detail = r.msg + " [in " + in.targetStack() + "]"
				if strings.HasPrefix(r.msg, "budget:") {
					outcome = "budget"
					detail = r.msg
				}
			case targetPanic:
				outcome = "panicked"
				detail = "panic: " + in.panicString(r.v)
				in.panicStack = r.stack
				in.reportFailure("panic", detail)
				in.panicStack = ""
			case goexitPanic:
				outcome = "completed"
			default:
				outcome = "unsupported"
				detail = fmt.Sprintf("engine panic: %v\n%s\ntarget stack: %s", r, trimStack(debug.Stack()), in.targetStack())
			}
		}()
		in.startMainThread()
		in.call(nil, token.NoPos, ex.fn, nil)
		in.finishThreads()
	}()
	in.killThreads()
	in.logging = false
	in.rollback()
	if outcome != "unsupported" && outcome != "budget" && in.pos < len(in.prefix) {
		outcome = "unsupported"
		detail = "replay divergence: prefix not consumed"
	}
	ex.mu.Lock()
	res := ex.res
	res.Paths[outcome]++
	res.States += int64(len(in.decisions)) + 1
	res.Steps += in.steps
	if outcome == "unsupported" || outcome == "budget" {
		key := detail
		if i := strings.IndexByte(key, '\n'); i > 0 && outcome == "budget" {
			key = key[:i]
		}
		res.Inconclusive[key]++
		if in.trace || os.Getenv("SYMGO_DEBUG") != "" {
			fmt.Fprintf(os.Stderr, "[path %s] %s\n", outcome, detail)
		}
	}
	for k := range in.reached {
		if !res.Reached[k] {
			res.Reached[k] = true
			res.ReachModels[k] = in.inputModel()
		}
	}
	for k := range in.usedIntrinsics {
		res.Intrinsics[k] = true
	}
	for k := range in.usedStubs {
		res.StubsUsed[k] = true
	}
	for k := range in.encoded {
		res.Encoded[k] = true
	}
	if len(res.Samples) < 6 || (outcome != "completed" && outcome != "pruned" && len(res.Samples) < 12) {
		res.Samples = append(res.Samples, PathSample{Outcome: outcome + optDetail(detail), Decisions: len(in.decisions), PCSize: len(in.pc), Inputs: in.inputModel(), Steps: in.steps, Observed: in.observes})
	}
	if ex.cfg.Concrete != nil {
		res.Observations = append(res.Observations, in.observes)
	}
	ex.mu.Unlock()
}

func optDetail(d string) string {
	if d == "" {
		return ""
	}
	if len(d) > 160 {
		d = d[:160]
	}
	return ": " + d
}

func trimStack(b []byte) string {
	lines := strings.Split(string(b), "\n")
	var keep []string
	for _, l := range lines {
		if strings.Contains(l, "verif/engine") && !strings.Contains(l, "runFrame") && !strings.Contains(l, "visitInstr") && !strings.Contains(l, "callSSA") {
			keep = append(keep, strings.TrimSpace(l))
			if len(keep) > 8 {
				break
			}
		}
	}
	return strings.Join(keep, "\n")
}

// inputModel returns the current model restricted to named inputs.
func (in *Interp) inputModel() map[string]uint64 {
	m := map[string]uint64{}
	for _, v := range in.symVars {
		m[v.Name] = in.model[v.Name]
	}
	return m
}

func (in *Interp) panicString(v value) string {
	if it, ok := v.(iface); ok {
		if s, ok := it.v.(string); ok {
			return s
		}
		if it.t != nil {
			// try Error() / String()
			for _, name := range []string{"Error", "String"} {
				if m := in.findMethod(it.t, name); m != nil {
					var out string
					func() {
						defer func() { recover() }()
						r := in.callSSA(nil, token.NoPos, m, []value{it.v}, nil)
						if s, ok := r.(string); ok {
							out = s
						}
					}()
					if out != "" {
						return out
					}
				}
			}
		}
	}
	return toString(v)
}

func (in *Interp) findMethod(t types.Type, name string) *ssa.Function {
	ms := in.prog.MethodSets.MethodSet(t)
	for i := 0; i < ms.Len(); i++ {
		if ms.At(i).Obj().Name() == name {
			return in.prog.MethodValue(ms.At(i))
		}
	}
	return nil
}

// ---------------------------------------------------------------- solver glue

func (in *Interp) eval(t *term.Term) uint64 {
	return in.ev.Eval(t, in.model, nil, 0)
}

func (in *Interp) setModel(m map[string]uint64) {
	in.model = m
	in.ev.NewGen()
}

func (in *Interp) syncSolver() {
	if in.solGen != in.sol.Gen {
		// the solver process was restarted: every assertion has to be re-sent
		in.solGen = in.sol.Gen
		in.solFresh = false
	}
	if !in.solFresh {
		in.sol.Reset()
		in.solFresh = true
		in.asserted = 0
	}
	for ; in.asserted < len(in.pc); in.asserted++ {
		in.sol.Assert(in.pc[in.asserted])
	}
}

func (in *Interp) check(extra ...*term.Term) (solver.Result, map[string]uint64) {
	if in.cfg.Concrete != nil {
		panic(engineError{"solver query during concrete run"})
	}
	in.syncSolver()
	r, m := in.sol.Check(extra, true)
	return r, m
}

func (in *Interp) addPC(t *term.Term) {
	if t.IsTrue() {
		return
	}
	if t.Op == term.OpAnd && t.MV {
		for _, a := range t.Args {
			in.addPC(a)
		}
		return
	}
	t = in.canonByte(t)
	if t.IsTrue() {
		return
	}
	in.pc = append(in.pc, t)
	in.pcAdd(t)
	in.domAdd(t)
}

// sizeAtLeast reports whether the term has at least n nodes (as a tree).
func sizeAtLeast(t *term.Term, n int) bool {
	var walk func(t *term.Term)
	walk = func(t *term.Term) {
		if n <= 0 {
			return
		}
		n--
		for _, a := range t.Args {
			walk(a)
		}
	}
	walk(t)
	return n <= 0
}

// canonByte rewrites a path-condition conjunct over a single 8-bit variable
// into a union of value ranges computed from its 256-entry truth table. The
// result is equivalent; it replaces deep ite/and/or nests (table lookups with
// a symbolic byte index) by a flat term the solver handles instantly.
func (in *Interp) canonByte(t *term.Term) *term.Term {
	v := t.SV
	if t.MV || v == nil || v.W != 8 {
		return t
	}
	if !sizeAtLeast(t, 12) {
		return t
	}
	var set [256]bool
	for x := uint64(0); x < 256; x++ {
		in.dev.NewGen()
		set[x] = in.dev.Eval(t, nil, v, x) != 0
	}
	runs := func(want bool) [][2]uint64 {
		var out [][2]uint64
		for x := 0; x < 256; {
			if set[x] != want {
				x++
				continue
			}
			y := x
			for y+1 < 256 && set[y+1] == want {
				y++
			}
			out = append(out, [2]uint64{uint64(x), uint64(y)})
			x = y + 1
		}
		return out
	}
	build := func(rs [][2]uint64) *term.Term {
		var alts []*term.Term
		for _, r := range rs {
			switch {
			case r[0] == r[1]:
				alts = append(alts, in.ts.Eq(v, in.ts.Const(8, r[0])))
			case r[0] == 0:
				alts = append(alts, in.ts.Bin(term.OpULe, v, in.ts.Const(8, r[1])))
			case r[1] == 255:
				alts = append(alts, in.ts.Bin(term.OpULe, in.ts.Const(8, r[0]), v))
			default:
				alts = append(alts, in.ts.And(in.ts.Bin(term.OpULe, in.ts.Const(8, r[0]), v), in.ts.Bin(term.OpULe, v, in.ts.Const(8, r[1]))))
			}
		}
		if len(alts) == 0 {
			return in.ts.Bool(false)
		}
		return in.ts.Or(alts...)
	}
	pos, neg := runs(true), runs(false)
	if len(neg) < len(pos) {
		return in.ts.Not(build(neg))
	}
	return build(pos)
}

// ---- byte domains: a cheap, sound pre-filter for the solver.
//
// For every 8-bit variable the engine keeps the set of values not yet excluded
// by path-condition conjuncts that mention only that variable. A condition over
// a single such variable is then decided by enumeration: impossible outcomes
// are pruned without a query, and when the variable occurs in no multi-variable
// conjunct both outcomes are known feasible (the witness value gives the model).

type domain [4]uint64

func (d *domain) has(v uint64) bool { return d[v>>6]&(1<<(v&63)) != 0 }
func (d *domain) del(v uint64)      { d[v>>6] &^= 1 << (v & 63) }

func (in *Interp) dom(v *term.Term) *domain {
	d, ok := in.doms[v.Name]
	if !ok {
		d = &domain{^uint64(0), ^uint64(0), ^uint64(0), ^uint64(0)}
		in.doms[v.Name] = d
	}
	return d
}

func (in *Interp) domAdd(t *term.Term) {
	if t.MV {
		seen := map[uint32]bool{}
		vars := map[string]uint8{}
		term.Vars(t, seen, vars)
		for n := range vars {
			in.multiVars[n] = true
		}
		return
	}
	v := t.SV
	if v == nil || v.W != 8 {
		if v != nil {
			in.multiVars[v.Name] = true // wide variable: always ask the solver
		}
		return
	}
	d := in.dom(v)
	for x := uint64(0); x < 256; x++ {
		if !d.has(x) {
			continue
		}
		in.dev.NewGen()
		if in.dev.Eval(t, nil, v, x) == 0 {
			d.del(x)
		}
	}
}

// domSplit enumerates the domain of c's single 8-bit variable: it returns a
// witness for c and one for ¬c (or -1), and whether the answer is exact.
func (in *Interp) domSplit(c *term.Term) (wTrue, wFalse int, exact, ok bool) {
	v := c.SV
	if c.MV || v == nil || v.W != 8 {
		return 0, 0, false, false
	}
	d := in.dom(v)
	wTrue, wFalse = -1, -1
	for x := uint64(0); x < 256; x++ {
		if !d.has(x) {
			continue
		}
		in.dev.NewGen()
		if in.dev.Eval(c, nil, v, x) != 0 {
			if wTrue < 0 {
				wTrue = int(x)
			}
		} else if wFalse < 0 {
			wFalse = int(x)
		}
		if wTrue >= 0 && wFalse >= 0 {
			break
		}
	}
	return wTrue, wFalse, !in.multiVars[v.Name], true
}

func (in *Interp) modelWith(name string, val uint64) map[string]uint64 {
	m := make(map[string]uint64, len(in.model)+1)
	for k, v := range in.model {
		m[k] = v
	}
	m[name] = val
	return m
}

// pcAdd records the literals a conjunct establishes, so that a later test of
// the same condition is decided without a solver query.
func (in *Interp) pcAdd(t *term.Term) {
	if in.pcSet[t.ID] {
		return
	}
	in.pcSet[t.ID] = true
	if t.Op == term.OpAnd {
		for _, a := range t.Args {
			in.pcAdd(a)
		}
	}
	if t.Op == term.OpNot && t.Args[0].Op == term.OpOr {
		for _, a := range t.Args[0].Args {
			in.pcAdd(in.ts.Not(a))
		}
	}
}

// implied reports whether c (1) or its negation (-1) is a recorded literal.
func (in *Interp) implied(c *term.Term) int {
	if in.pcSet[c.ID] {
		return 1
	}
	if in.pcSet[in.ts.Not(c).ID] {
		return -1
	}
	return 0
}

// branch decides a symbolic condition, forking the path when both outcomes
// are feasible. The outcome consistent with the current model continues here;
// the other one is queued with the model that witnesses it.
func (in *Interp) branch(c *term.Term) bool {
	if c.IsConst() {
		return c.Val != 0
	}
	return in.branchD(c, false, 0)
}

func (in *Interp) branchD(c *term.Term, hasVal bool, val uint64) bool {
	if in.summaryDepth > 0 {
		return in.summaryBranch(c)
	}
	if in.pos < len(in.prefix) {
		if imp := in.implied(c); imp != 0 {
			return imp > 0
		}
		d := in.prefix[in.pos]
		in.pos++
		if d.HasVal != hasVal {
			panic(engineError{"replay divergence: decision kind mismatch"})
		}
		in.decisions = append(in.decisions, d)
		if d.Taken {
			in.addPC(c)
		} else {
			in.addPC(in.ts.Not(c))
		}
		return d.Taken
	}
	in.pos++
	taken := in.eval(c) != 0
	if imp := in.implied(c); imp != 0 {
		// decided by the path condition: no fork, no query
		in.pos--
		return imp > 0
	}
	if in.cfg.Concrete == nil {
		var other *term.Term
		if taken {
			other = in.ts.Not(c)
		} else {
			other = c
		}
		var r solver.Result
		var m map[string]uint64
		if wT, wF, exact, ok := in.domSplit(c); ok {
			w := wT
			if taken {
				w = wF
			}
			switch {
			case w < 0:
				r = solver.Unsat
				in.ex.mu.Lock()
				in.ex.res.DomainDecided++
				in.ex.mu.Unlock()
			case exact:
				r, m = solver.Sat, in.modelWith(c.SV.Name, uint64(w))
				in.ex.mu.Lock()
				in.ex.res.DomainDecided++
				in.ex.mu.Unlock()
			default:
				r, m = in.check(other)
			}
		} else {
			r, m = in.check(other)
		}
		switch r {
		case solver.Sat:
			alt := make([]Decision, len(in.decisions)+1)
			copy(alt, in.decisions)
			alt[len(in.decisions)] = Decision{Taken: !taken, HasVal: hasVal, Val: val}
			in.ex.push(&workItem{prefix: alt, model: m})
		case solver.Unknown:
			in.ex.inconclusive("solver unknown on a feasibility query: " + in.sol.LastErr)
		}
	}
	in.decisions = append(in.decisions, Decision{Taken: taken, HasVal: hasVal, Val: val})
	if taken {
		in.addPC(c)
	} else {
		in.addPC(in.ts.Not(c))
	}
	return taken
}

// concretize picks a concrete value for t, forking over the alternatives.
func (in *Interp) concretize(t *term.Term) uint64 {
	if t.IsConst() {
		return t.Val
	}
	if in.summaryDepth > 0 {
		panic(engineError{"summary: concretization inside summarized function"})
	}
	if vm := in.eval(t); in.implied(in.ts.Eq(t, in.ts.Const(t.W, vm))) == 1 {
		return vm
	}
	for n := 0; ; n++ {
		var v uint64
		if in.pos < len(in.prefix) {
			v = in.prefix[in.pos].Val
		} else {
			v = in.eval(t)
		}
		if in.branchD(in.ts.Eq(t, in.ts.Const(t.W, v)), true, v) {
			return v
		}
		if n > 4096 {
			panic(engineError{"concretize: too many alternatives"})
		}
	}
}

// assume constrains the path; an infeasible assumption ends it.
func (in *Interp) assume(c *term.Term) {
	if c.IsTrue() {
		return
	}
	if c.IsFalse() {
		panic(pathEnd{"assume false"})
	}
	if in.eval(c) != 0 {
		in.addPC(c)
		return
	}
	if in.cfg.Concrete != nil {
		panic(pathEnd{"assume false (concrete)"})
	}
	if wT, _, exact, ok := in.domSplit(c); ok {
		if wT < 0 {
			panic(pathEnd{"assume infeasible (domain)"})
		}
		if exact {
			in.setModel(in.modelWith(c.SV.Name, uint64(wT)))
			in.addPC(c)
			return
		}
	}
	r, m := in.check(c)
	switch r {
	case solver.Sat:
		in.addPC(c)
		in.setModel(m)
	case solver.Unsat:
		panic(pathEnd{"assume infeasible"})
	default:
		panic(engineError{"solver unknown on an assumption: " + in.sol.LastErr})
	}
}

// provable reports whether c holds on every input of the current path.
func (in *Interp) provable(c *term.Term) bool {
	if c.IsConst() {
		return c.Val != 0
	}
	if in.implied(c) == 1 {
		return true
	}
	if in.eval(c) == 0 || in.cfg.Concrete != nil {
		return in.cfg.Concrete != nil && in.eval(c) != 0
	}
	r, _ := in.check(in.ts.Not(c))
	if r == solver.Unsat {
		in.pcAdd(c) // remember the fact as a literal (it is implied by the path condition)
		return true
	}
	return false
}

// choose returns a nondeterministic value in [0,n).
func (in *Interp) choose(n int, label string) int {
	if n <= 1 {
		return 0
	}
	v := in.freshVar("_"+label, 8, "choice")
	in.assume(in.ts.Bin(term.OpULt, v, in.ts.Const(8, uint64(n))))
	return int(in.concretize(v))
}

func (in *Interp) freshVar(name string, w uint8, kind string) *term.Term {
	k := in.symSeq[name]
	in.symSeq[name] = k + 1
	full := fmt.Sprintf("%s#%d", name, k)
	in.symVars = append(in.symVars, SymVar{Name: full, W: w, Kind: kind})
	return in.ts.Var(full, w)
}

func (in *Interp) knownNeg() []*term.Term {
	var out []*term.Term
	for _, k := range in.known {
		out = append(out, in.ts.Not(k.cond))
	}
	return out
}

// assert checks an obligation on the current path.
func (in *Interp) assert(c *term.Term, msg string) {
	if in.cfg.PanicOnly {
		return // this run only asks whether the code can panic
	}
	in.ex.mu.Lock()
	in.ex.res.Asserts++
	in.ex.mu.Unlock()
	if c.IsTrue() {
		in.ex.mu.Lock()
		in.ex.res.AssertsProved++
		in.ex.mu.Unlock()
		return
	}
	notc := in.ts.Not(c)
	if in.cfg.Concrete != nil {
		if in.eval(c) == 0 {
			in.recordViolation("assert", msg, in.model, nil)
		}
		return
	}
	// 1. a violation outside every known class?
	extra := append([]*term.Term{notc}, in.knownNeg()...)
	var r solver.Result
	var m map[string]uint64
	if in.eval(in.ts.And(extra...)) != 0 {
		r, m = solver.Sat, in.model
	} else {
		r, m = in.check(extra...)
	}
	switch r {
	case solver.Sat:
		in.recordViolation("assert", msg, m, nil)
	case solver.Unknown:
		in.ex.inconclusive("solver unknown on an assertion: " + msg)
	case solver.Unsat:
		if len(in.known) > 0 {
			r2, m2 := in.check(notc)
			switch r2 {
			case solver.Sat:
				var ids []string
				memo := map[uint32]uint64{}
				for _, k := range in.known {
					if term.Eval(k.cond, m2, memo) != 0 {
						ids = append(ids, k.id)
					}
				}
				in.recordViolation("assert", msg, m2, ids)
			case solver.Unknown:
				in.ex.inconclusive("solver unknown on an assertion: " + msg)
			default:
				in.ex.mu.Lock()
				in.ex.res.AssertsProved++
				in.ex.mu.Unlock()
			}
		} else {
			in.ex.mu.Lock()
			in.ex.res.AssertsProved++
			in.ex.mu.Unlock()
		}
	}
	// continue under the assertion
	if c.IsFalse() {
		panic(pathEnd{"assertion failed on every input of this path"})
	}
	in.assume(c)
}

// reportFailure records a failure of the whole path (panic, deadlock, leak):
// every input satisfying the path condition exhibits it.
func (in *Interp) reportFailure(kind, msg string) {
	if in.cfg.Concrete != nil || len(in.known) == 0 {
		in.recordViolation(kind, msg, in.model, nil)
		return
	}
	extra := in.knownNeg()
	if in.eval(in.ts.And(extra...)) != 0 {
		in.recordViolation(kind, msg, in.model, nil)
		return
	}
	r, m := in.check(extra...)
	switch r {
	case solver.Sat:
		in.recordViolation(kind, msg, m, nil)
	case solver.Unknown:
		in.ex.inconclusive("solver unknown on a failure-class query: " + msg)
	default:
		var ids []string
		for _, k := range in.known {
			if in.eval(k.cond) != 0 {
				ids = append(ids, k.id)
			}
		}
		in.recordViolation(kind, msg, in.model, ids)
	}
}

func (in *Interp) recordViolation(kind, msg string, m map[string]uint64, knownIDs []string) {
	inputs := map[string]uint64{}
	for _, v := range in.symVars {
		inputs[v.Name] = m[v.Name]
	}
	v := Violation{Harness: in.ex.fn.Name(), Kind: kind, Msg: msg, Inputs: inputs, Vars: append([]SymVar(nil), in.symVars...), KnownIDs: knownIDs, Stack: in.panicStack + in.targetStack()}
	ex := in.ex
	ex.mu.Lock()
	defer ex.mu.Unlock()
	if len(knownIDs) > 0 {
		sort.Strings(knownIDs)
		for _, id := range knownIDs {
			if _, ok := ex.res.KnownHits[id]; !ok {
				ex.res.KnownHits[id] = v
			}
		}
		return
	}
	key := kind + ":" + msg
	ex.nviol[key]++
	// Enough is enough: after a few hundred violating paths the verdict cannot
	// change any more, and a broken tree can multiply paths without bound.
	ex.violPaths++
	if ex.violPaths >= 300 && !ex.stop {
		ex.stop = true
		ex.cond.Broadcast()
	}
	max := ex.cfg.MaxViolations
	if max == 0 {
		max = 3
	}
	if ex.nviol[key] <= max && len(ex.res.Violations) < 40 {
		ex.res.Violations = append(ex.res.Violations, v)
	}
}

// reachLabels collects the constant labels of sym.Reach calls in fn and its closures.
func reachLabels(fn *ssa.Function) []string {
	seen := map[string]bool{}
	var out []string
	var visit func(f *ssa.Function)
	visit = func(f *ssa.Function) {
		for _, b := range f.Blocks {
			for _, ins := range b.Instrs {
				if c, ok := ins.(*ssa.Call); ok {
					if callee := c.Call.StaticCallee(); callee != nil && callee.String() == symPkg+".Reach" {
						if k, ok := c.Call.Args[0].(*ssa.Const); ok {
							l := constValue(k).(string)
							if !seen[l] {
								seen[l] = true
								out = append(out, l)
							}
						}
					}
				}
			}
		}
		for _, a := range f.AnonFuncs {
			visit(a)
		}
	}
	visit(fn)
	return out
}

func (in *Interp) targetStack() string {
	var parts []string
	for i := len(in.callStack) - 1; i >= 0 && len(parts) < 14; i-- {
		parts = append(parts, in.callStack[i].String())
	}
	return strings.Join(parts, " <- ")
}
