package interp

import (
	"crypto/sha256"
	"fmt"
	"go/token"
	"go/types"
	"math"
	"strconv"
	"strings"

	"golang.org/x/tools/go/ssa"
	"verif/engine/term"
)

const symPkg = "github.com/tucats/ego/internal/zzverif/sym"

type intrinsic func(fr *frame, args []value) value

var intrinsics map[string]intrinsic

func lookupIntrinsic(fn *ssa.Function, name string) intrinsic {
	if f, ok := intrinsics[name]; ok {
		return f
	}
	if strings.HasPrefix(name, "reflect.TypeFor[") || strings.HasPrefix(name, "internal/abi.TypeFor[") {
		t := fn.TypeArgs()[0]
		return func(fr *frame, args []value) value { return mkType(t) }
	}
	if fn.Pkg == nil || fn.Blocks == nil || strings.Contains(name, "[") {
		// instantiated generics of sync/atomic
		if strings.HasPrefix(name, "(*sync/atomic.Pointer[") {
			i := strings.LastIndex(name, ").")
			if f, ok := intrinsics["(*sync/atomic.Pointer[T])."+name[i+2:]]; ok {
				return f
			}
		}
	}
	return nil
}

func noop(fr *frame, args []value) value { return nil }

func constFn(v value) intrinsic {
	return func(fr *frame, args []value) value { return v }
}

func goStr(v value) string {
	s, ok := v.(string)
	if !ok {
		panic(engineError{fmt.Sprintf("intrinsic needs a concrete string, got %T", v)})
	}
	return s
}

func fld(p value, i int) *value {
	pv := p.(*value)
	return &(*pv).(structure)[i]
}

func init() {
	intrinsics = map[string]intrinsic{
		// ---- sym
		symPkg + ".Symbolic":       constFn(true),
		symPkg + ".Bool":           symScalar(types.Bool),
		symPkg + ".Int8":           symScalar(types.Int8),
		symPkg + ".Int16":          symScalar(types.Int16),
		symPkg + ".Int32":          symScalar(types.Int32),
		symPkg + ".Int64":          symScalar(types.Int64),
		symPkg + ".Int":            symScalar(types.Int),
		symPkg + ".Uint8":          symScalar(types.Uint8),
		symPkg + ".Byte":           symScalar(types.Uint8),
		symPkg + ".Uint16":         symScalar(types.Uint16),
		symPkg + ".Uint32":         symScalar(types.Uint32),
		symPkg + ".Uint64":         symScalar(types.Uint64),
		symPkg + ".Uint":           symScalar(types.Uint),
		symPkg + ".Rune":           symScalar(types.Int32),
		symPkg + ".String":         symStringFn(false),
		symPkg + ".Bytes":          symStringFn(true),
		symPkg + ".StringN":        symStringN,
		symPkg + ".Choice":         symChoice,
		symPkg + ".Assume":         symAssume,
		symPkg + ".Assert":         symAssert,
		symPkg + ".Reach":          symReach,
		symPkg + ".Observe":        symObserve,
		symPkg + ".Known":          symKnown,
		symPkg + ".NondetMapOrder": func(fr *frame, args []value) value { fr.i.nondetMapOrder = true; return nil },
		symPkg + ".LiveThreads":    func(fr *frame, args []value) value { return fr.i.liveThreads() },
		symPkg + ".Concretize":     symConcretize,
		symPkg + ".Settle":         func(fr *frame, args []value) value { fr.i.finishThreads(); return nil },
		symPkg + ".Yield":          func(fr *frame, args []value) value { fr.i.yield(fr); return nil },
		symPkg + ".Clock":          symClock,
		symPkg + ".Instant":        symInstant,
		symPkg + ".ClockFine":      symClockFine,
		symPkg + ".ClockSpan": func(fr *frame, args []value) value {
			fr.i.clockSpan = uint64(asInt64(args[0]))
			return nil
		},
		symPkg + ".Fail":           symFail,
		symPkg + ".Thorough":       func(fr *frame, args []value) value { return fr.i.cfg.Tier == "thorough" },
		symPkg + ".Bound":          symBound,

		// ---- sync
		"(*sync.Mutex).Lock":      mutexLock,
		"(*sync.Mutex).Unlock":    mutexUnlock,
		"(*sync.Mutex).TryLock":   mutexTryLock,
		"(*sync.RWMutex).Lock":    rwLock,
		"(*sync.RWMutex).Unlock":  rwUnlock,
		"(*sync.RWMutex).RLock":   rwRLock,
		"(*sync.RWMutex).RUnlock": rwRUnlock,
		"(*sync.Once).Do":         onceDo,
		"(*sync.WaitGroup).Add":   wgAdd,
		"(*sync.WaitGroup).Done":  func(fr *frame, args []value) value { return wgAdd(fr, []value{args[0], -1}) },
		"(*sync.WaitGroup).Wait":  wgWait,
		"(*sync.Pool).Get":        poolGet,
		"(*sync.Pool).Put":        noop,

		// ---- sync/atomic
		"sync/atomic.LoadInt32":             atomicLoad,
		"sync/atomic.LoadInt64":             atomicLoad,
		"sync/atomic.LoadUint32":            atomicLoad,
		"sync/atomic.LoadUint64":            atomicLoad,
		"sync/atomic.LoadUintptr":           atomicLoad,
		"sync/atomic.LoadPointer":           atomicLoad,
		"sync/atomic.StoreInt32":            atomicStore,
		"sync/atomic.StoreInt64":            atomicStore,
		"sync/atomic.StoreUint32":           atomicStore,
		"sync/atomic.StoreUint64":           atomicStore,
		"sync/atomic.StoreUintptr":          atomicStore,
		"sync/atomic.StorePointer":          atomicStore,
		"sync/atomic.AddInt32":              atomicAdd,
		"sync/atomic.AddInt64":              atomicAdd,
		"sync/atomic.AddUint32":             atomicAdd,
		"sync/atomic.AddUint64":             atomicAdd,
		"sync/atomic.AddUintptr":            atomicAdd,
		"sync/atomic.SwapInt32":             atomicSwap,
		"sync/atomic.SwapInt64":             atomicSwap,
		"sync/atomic.SwapUint32":            atomicSwap,
		"sync/atomic.SwapUint64":            atomicSwap,
		"sync/atomic.SwapPointer":           atomicSwap,
		"sync/atomic.CompareAndSwapInt32":   atomicCAS,
		"sync/atomic.CompareAndSwapInt64":   atomicCAS,
		"sync/atomic.CompareAndSwapUint32":  atomicCAS,
		"sync/atomic.CompareAndSwapUint64":  atomicCAS,
		"sync/atomic.CompareAndSwapUintptr": atomicCAS,
		"sync/atomic.CompareAndSwapPointer": atomicCAS,
		"(*sync/atomic.Value).Load":         func(fr *frame, args []value) value { fr.i.yield(fr); return *fld(args[0], 0) },
		"(*sync/atomic.Value).Store": func(fr *frame, args []value) value {
			fr.i.yield(fr)
			fr.i.set(fld(args[0], 0), args[1])
			return nil
		},
		"(*sync/atomic.Pointer[T]).Load": func(fr *frame, args []value) value {
			fr.i.yield(fr)
			v := *fld(args[0], 2)
			if u, ok := v.(unsafePtr); ok {
				if u.p == nil {
					return (*value)(nil)
				}
				return u.p
			}
			return v
		},
		"(*sync/atomic.Pointer[T]).Store": func(fr *frame, args []value) value {
			fr.i.yield(fr)
			fr.i.set(fld(args[0], 2), args[1])
			return nil
		},

		// ---- strings.Builder / bytealg
		"(*strings.Builder).copyCheck": noop,
		"(*strings.Builder).String": func(fr *frame, args []value) value {
			return mkString((*fld(args[0], 1)).([]value))
		},
		"internal/bytealg.MakeNoZero": func(fr *frame, args []value) value {
			n := asInt64(args[0])
			s := make([]value, n)
			for i := range s {
				s[i] = uint8(0)
			}
			return s
		},
		"internal/bytealg.IndexByteString": idxByte,
		"internal/bytealg.IndexByte":       idxByte,
		"internal/bytealg.CountString":     cntByte,
		"internal/bytealg.Count":           cntByte,
		"internal/bytealg.Equal":           func(fr *frame, args []value) value { return fr.i.strEq(mkString(args[0].([]value)), mkString(args[1].([]value))) },
		"strings.Index":                    strIndex,
		"bytes.Index":                      strIndex,
		"strings.IndexByte":                idxByte,
		"bytes.IndexByte":                  idxByte,
		"internal/stringslite.Index":       strIndex,
		"internal/stringslite.IndexByte":   idxByte,
		"strings.LastIndex":                strLastIndex,
		"strings.Compare":                  strCompare,
		"internal/bytealg.CompareString":   strCompare,
		"internal/bytealg.Compare":         strCompare,
		"strings.Clone":                    func(fr *frame, args []value) value { return args[0] },
		"internal/stringslite.Clone":       func(fr *frame, args []value) value { return args[0] },

		// ---- runtime / os
		"runtime.GOMAXPROCS":     constFn(1),
		"runtime.NumCPU":         constFn(1),
		"runtime.NumGoroutine":   func(fr *frame, args []value) value { return fr.i.liveThreads() + 1 },
		"runtime.Gosched":        func(fr *frame, args []value) value { fr.i.yield(fr); return nil },
		"runtime.Goexit":         func(fr *frame, args []value) value { panic(goexitPanic{}) },
		"runtime.KeepAlive":      noop,
		"runtime.SetFinalizer":   noop,
		"runtime.GC":             noop,
		"runtime.Caller":         func(fr *frame, args []value) value { return tuple{uintptr(0), "", 0, false} },
		"runtime.Callers":        constFn(0),
		"runtime/debug.Stack":    constFn([]value(nil)),
		"runtime/debug.PrintStack": noop,
		"os.Getenv":              constFn(""),
		"os.LookupEnv":           constFn(tuple{"", false}),
		"os.Getpid":              constFn(4242),
		"os.Setenv":              constFn(iface{}),
		"os.Unsetenv":            constFn(iface{}),
		"github.com/shirou/gopsutil/v4/host.Info":         envUnavailable,
		"github.com/shirou/gopsutil/v4/mem.VirtualMemory": envUnavailable,
		"os.Hostname":            func(fr *frame, args []value) value { return tuple{"verif-host", iface{}} },
		"os.Exit":                func(fr *frame, args []value) value { panic(targetPanic{v: fr.i.runtimeError("os.Exit called")}) },
		"time.Sleep":             func(fr *frame, args []value) value { fr.i.yield(fr); return nil },
		"time.Now":               timeNow,
		"time.runtimeNano":       constFn(int64(1)),
		"time.Since":             timeSince,
		"(time.Time).Sub":        timeSub,
		"(time.Time).Add":        timeAdd,
		"(time.Time).Format":     timeOpaqueText,
		"(time.Time).String":     timeOpaqueText,
		"time.Until":             timeUntil,
		"internal/godebug.(*Setting).Value":         constFn(""),
		"(*internal/godebug.Setting).Value":         constFn(""),
		"(*internal/godebug.Setting).IncNonDefault": noop,
		"(*internal/godebug.Setting).Name":          constFn(""),
		"internal/godebug.New": func(fr *frame, args []value) value {
			var v value = zero(deref(fr.fn.Signature.Results().At(0).Type()))
			return &v
		},
		"github.com/google/uuid.New":       uuidNew,
		"github.com/google/uuid.NewString": constFn("3f2c1a9e-7b4d-4c6a-9e1f-0a1b2c3d4e5f"),
		"github.com/google/uuid.NewRandom": func(fr *frame, args []value) value { return tuple{uuidNew(fr, nil), iface{}} },

		"crypto/subtle.ConstantTimeCompare": func(fr *frame, a []value) value {
			in := fr.i
			x, y := a[0].([]value), a[1].([]value)
			if len(x) != len(y) {
				return 0
			}
			eq := in.strEq(mkString(x), mkString(y))
			if b, ok := eq.(bool); ok {
				if b {
					return 1
				}
				return 0
			}
			return in.fromTerm(in.ts.Ite(eq.(*Sym).T, in.ts.Const(64, 1), in.ts.Const(64, 0)), types.Int)
		},

		// ---- default prelude: logging is never part of a property
		"github.com/tucats/ego/internal/cli/ui.Log":      noop,
		"github.com/tucats/ego/internal/cli/ui.WriteLog": noop,
		"github.com/tucats/ego/internal/cli/ui.IsActive": constFn(false),
		"crypto/sha256.Sum256": func(fr *frame, a []value) value {
			b := concreteBytes(a[0])
			h := sha256.Sum256(b)
			out := make(array, 32)
			for i := range out {
				out[i] = h[i]
			}
			return out
		},

		// ---- math (bit casts cannot be interpreted in the boxed representation)
		"math.Float64bits":     func(fr *frame, a []value) value { return math.Float64bits(a[0].(float64)) },
		"math.Float64frombits": func(fr *frame, a []value) value { return math.Float64frombits(a[0].(uint64)) },
		"math.Float32bits":     func(fr *frame, a []value) value { return math.Float32bits(a[0].(float32)) },
		"math.Float32frombits": func(fr *frame, a []value) value { return math.Float32frombits(a[0].(uint32)) },
		"math.Abs": func(fr *frame, a []value) value {
			if f, ok := a[0].(symFloat); ok {
				ts := fr.i.ts
				neg := ts.Bin(term.OpSLt, f.num, ts.Const(64, 0))
				return symFloat{num: ts.Ite(neg, ts.Un(term.OpNeg, f.num), f.num), div: f.div}
			}
			return math.Abs(a[0].(float64))
		},
		"(time.Duration).Hours":   durFloat(3600e9),
		"(time.Duration).Minutes": durFloat(60e9),
		"(time.Duration).Seconds": durFloat(1e9),
		"math.Floor":           m1(math.Floor),
		"math.Ceil":            m1(math.Ceil),
		"math.Trunc":           m1(math.Trunc),
		"math.Round":           m1(math.Round),
		"math.Sqrt":            m1(math.Sqrt),
		"math.Log":             m1(math.Log),
		"math.Log2":            m1(math.Log2),
		"math.Log10":           m1(math.Log10),
		"math.Exp":             m1(math.Exp),
		"math.Sin":             m1(math.Sin),
		"math.Cos":             m1(math.Cos),
		"math.Tan":             m1(math.Tan),
		"math.Pow":             m2(math.Pow),
		"math.Mod":             m2(math.Mod),
		"math.Max":             m2(math.Max),
		"math.Min":             m2(math.Min),
		"math.Copysign":        m2(math.Copysign),
		"math.NaN":             func(fr *frame, a []value) value { return math.NaN() },
		"math.Inf":             func(fr *frame, a []value) value { return math.Inf(int(asInt64(a[0]))) },
		"math.IsNaN":           func(fr *frame, a []value) value { return math.IsNaN(a[0].(float64)) },
		"math.IsInf":           func(fr *frame, a []value) value { return math.IsInf(a[0].(float64), int(asInt64(a[1]))) },
		"math.Signbit":         func(fr *frame, a []value) value { return math.Signbit(a[0].(float64)) },
		"math.Modf": func(fr *frame, a []value) value {
			i, f := math.Modf(a[0].(float64))
			return tuple{i, f}
		},
		"math.Frexp": func(fr *frame, a []value) value {
			f, e := math.Frexp(a[0].(float64))
			return tuple{f, e}
		},
		"math.Ldexp": func(fr *frame, a []value) value { return math.Ldexp(a[0].(float64), int(asInt64(a[1]))) },

		// ---- strconv fast paths for concrete arguments (symbolic ones run from source)
		"strconv.Itoa": concreteOr(func(a []value) value { return strconv.Itoa(a[0].(int)) }),
		"strconv.Atoi": concreteOr(func(a []value) value {
			n, err := strconv.Atoi(a[0].(string))
			if err != nil {
				return nil
			}
			return tuple{n, iface{}}
		}),
		"strconv.FormatInt":   concreteOr(func(a []value) value { return strconv.FormatInt(a[0].(int64), a[1].(int)) }),
		"strconv.FormatUint":  concreteOr(func(a []value) value { return strconv.FormatUint(a[0].(uint64), a[1].(int)) }),
		"strconv.FormatFloat": concreteOr(func(a []value) value { return strconv.FormatFloat(a[0].(float64), a[1].(uint8), a[2].(int), a[3].(int)) }),
		"strconv.Quote":       concreteOr(func(a []value) value { return strconv.Quote(a[0].(string)) }),
		"strconv.ParseFloat": concreteOr(func(a []value) value {
			f, err := strconv.ParseFloat(a[0].(string), a[1].(int))
			if err != nil {
				return nil
			}
			return tuple{f, iface{}}
		}),

		// ---- sort (reflect-based swappers cannot be interpreted)
		"sort.Slice":       sortSliceUnstable,
		"sort.SliceStable": sortSlice,

		// ---- errors
		"errors.Is": errorsIs,
		"errors.As": errorsAs,

		// ---- fmt
		"fmt.Sprintf":  fmtSprintf,
		"fmt.Sprint":   fmtSprint(false),
		"fmt.Sprintln": fmtSprint(true),
		"fmt.Errorf":   fmtErrorf,
		"fmt.Printf":   noopRet(tuple{0, iface{}}),
		"fmt.Println":  noopRet(tuple{0, iface{}}),
		"fmt.Print":    noopRet(tuple{0, iface{}}),
		"fmt.Fprintf":  fmtFprintf,
		"fmt.Fprintln": fmtFprint(true),
		"fmt.Fprint":   fmtFprint(false),
	}
}

// durFloat models Duration.Hours/Minutes/Seconds on a symbolic duration as the
// exact rational d/unit (see symFloat); concrete durations run the real body.
func durFloat(unit int64) intrinsic {
	return func(fr *frame, args []value) value {
		in := fr.i
		if s, ok := args[0].(*Sym); ok {
			t := in.to64(s)
			// checked algebraic rewrite: (x*c)/unit == x*(c/unit) when unit | c and
			// x*c cannot have wrapped; the side condition is discharged by the solver.
			if t.Op == term.OpMul {
				for k := 0; k < 2; k++ {
					c, x := t.Args[k], t.Args[1-k]
					if c.IsConst() && int64(c.Val) > 0 && int64(c.Val) < unit && unit%int64(c.Val) == 0 {
						// (x*c)/unit == x/(unit/c), same side condition
						lim := uint64((int64(1) << 62) / int64(c.Val))
						inRange := in.ts.And(in.ts.Bin(term.OpSLe, in.ts.Const(64, -lim), x), in.ts.Bin(term.OpSLe, x, in.ts.Const(64, lim)))
						if in.provable(inRange) {
							return symFloat{num: x, div: unit / int64(c.Val)}
						}
					}
					if c.IsConst() && int64(c.Val) > 0 && int64(c.Val)%unit == 0 {
						lim := uint64((int64(1) << 62) / int64(c.Val))
						inRange := in.ts.And(in.ts.Bin(term.OpSLe, in.ts.Const(64, -lim), x), in.ts.Bin(term.OpSLe, x, in.ts.Const(64, lim)))
						if in.provable(inRange) {
							q := int64(c.Val) / unit
							return symFloat{num: in.ts.Bin(term.OpMul, x, in.ts.Const(64, uint64(q))), div: 1}
						}
					}
				}
			}
			return symFloat{num: t, div: unit}
		}
		return in.interpretBody(fr, args)
	}
}

// timeSub models t.Sub(u) for symbolic wall-clock instants without sub-second
// part as (t.sec-u.sec)*1e9, after proving that the difference is far from the
// saturation range of time.Duration; anything else runs the real body.
func timeSub(fr *frame, args []value) value {
	in := fr.i
	t, u := args[0].(structure), args[1].(structure)
	if !hasSym(t) && !hasSym(u) {
		return in.interpretBody(fr, args)
	}
	ht, ok1 := in.halfOf(t[0])
	hu, ok2 := in.halfOf(u[0])
	if !ok1 || !ok2 {
		return in.interpretBody(fr, args)
	}
	diff := in.ts.Bin(term.OpSub, in.val64(t[1]), in.val64(u[1]))
	lim := uint64(4_000_000_000)
	inRange := in.ts.And(in.ts.Bin(term.OpSLe, in.ts.Const(64, -lim), diff), in.ts.Bin(term.OpSLe, diff, in.ts.Const(64, lim)))
	if !in.provable(inRange) {
		return in.interpretBody(fr, args)
	}
	if ht == nil && hu == nil {
		return in.fromTerm(in.ts.Bin(term.OpMul, diff, in.ts.Const(64, 1_000_000_000)), types.Int64)
	}
	// half seconds: (2*diff + ht - hu) * 5e8
	zero := in.ts.Const(64, 0)
	if ht == nil {
		ht = zero
	}
	if hu == nil {
		hu = zero
	}
	halves := in.ts.Bin(term.OpAdd, in.ts.Bin(term.OpMul, diff, in.ts.Const(64, 2)), in.ts.Bin(term.OpSub, ht, hu))
	return in.fromTerm(in.ts.Bin(term.OpMul, halves, in.ts.Const(64, 500_000_000)), types.Int64)
}

// halfOf recognises the wall word of an instant without monotonic reading whose
// sub-second part is zero (nil, true) or an arbitrary half second as produced
// by sym.ClockFine (a 64-bit 0/1 term, true).
func (in *Interp) halfOf(wall value) (*term.Term, bool) {
	switch w := wall.(type) {
	case uint64:
		switch w {
		case 0:
			return nil, true
		case 500_000_000:
			return in.ts.Const(64, 1), true
		}
	case *Sym:
		if w.T.Op == term.OpIte && w.T.Args[1].IsConst() && w.T.Args[2].IsConst() && w.T.Args[1].Val == 500_000_000 && w.T.Args[2].Val == 0 {
			return in.ts.Ite(w.T.Args[0], in.ts.Const(64, 1), in.ts.Const(64, 0)), true
		}
	}
	return nil, false
}

// timeAdd models t.Add(d) for a symbolic instant without monotonic reading and
// a concrete whole number of seconds: the sub-second part is unchanged and the
// seconds move by d (the instants of sym.Clock are far from saturation).
func timeAdd(fr *frame, args []value) value {
	in := fr.i
	t := args[0].(structure)
	d, ok := args[1].(int64)
	if !ok || !hasSym(t) || d%1_000_000_000 != 0 || d > 1<<50 || d < -(1<<50) {
		return in.interpretBody(fr, args)
	}
	if _, ok := in.halfOf(t[0]); !ok {
		return in.interpretBody(fr, args)
	}
	sec := in.ts.Bin(term.OpAdd, in.val64(t[1]), in.ts.Const(64, uint64(d/1_000_000_000)))
	return structure{t[0], in.fromTerm(sec, types.Int64), t[2]}
}

func concreteBytes(v value) []byte {
	bs := v.([]value)
	out := make([]byte, len(bs))
	for i, e := range bs {
		c, ok := e.(uint8)
		if !ok {
			panic(engineError{"a cryptographic hash was applied to symbolic bytes (stub it with an ideal model)"})
		}
		out[i] = c
	}
	return out
}

// envUnavailable models an operating-system query that fails: (nil, error).
func envUnavailable(fr *frame, args []value) value {
	return tuple{(*value)(nil), fr.i.callNamed("errors", "New", "not available under symbolic execution")}
}

func noopRet(v value) intrinsic { return func(fr *frame, args []value) value { return v } }

func m1(f func(float64) float64) intrinsic {
	return func(fr *frame, a []value) value { return f(a[0].(float64)) }
}
func m2(f func(float64, float64) float64) intrinsic {
	return func(fr *frame, a []value) value { return f(a[0].(float64), a[1].(float64)) }
}

// concreteOr runs native when all arguments are concrete basics and native
// returns non-nil; otherwise the function's own body is interpreted.
func concreteOr(native func(a []value) value) intrinsic {
	return func(fr *frame, args []value) value {
		ok := true
		for _, a := range args {
			if hasSym(a) {
				ok = false
			}
		}
		if ok {
			if r := native(args); r != nil {
				return r
			}
		}
		return fr.i.interpretBody(fr, args)
	}
}

// interpretBody runs fr.fn's real body (used by intrinsics that only cover a fast path).
func (in *Interp) interpretBody(ifr *frame, args []value) value {
	fn := ifr.fn
	if fn.Blocks == nil {
		unsupported("no code for function: %s", fn)
	}
	if fn.Pkg != nil {
		in.ensureInit(fn.Pkg)
	}
	info := in.info(fn)
	fr := &frame{i: in, caller: ifr.caller, fn: fn, info: info, th: ifr.th}
	fr.env = make([]value, info.n)
	fr.block = fn.Blocks[0]
	fr.locals = make([]value, len(fn.Locals))
	for i, l := range fn.Locals {
		fr.locals[i] = zero(deref(l.Type()))
		fr.env[info.idx[l]] = &fr.locals[i]
	}
	for i, p := range fn.Params {
		fr.env[info.idx[p]] = args[i]
	}
	for fr.block != nil {
		runFrame(fr)
	}
	return fr.result
}

// ------------------------------------------------------------------ sym

func symScalar(k types.BasicKind) intrinsic {
	return func(fr *frame, args []value) value {
		in := fr.i
		w := kindWidth(k)
		v := in.freshVar(goStr(args[0]), w, k2s(k))
		return in.fromTerm(v, k)
	}
}

func k2s(k types.BasicKind) string { return types.Typ[k].Name() }

func symStringFn(asBytes bool) intrinsic {
	return func(fr *frame, args []value) value {
		in := fr.i
		name := goStr(args[0])
		max := int(asInt64(args[1]))
		k := in.symSeq[name]
		in.symSeq[name] = k + 1
		base := fmt.Sprintf("%s#%d", name, k)
		lv := in.ts.Var(base+".len", 8)
		in.symVars = append(in.symVars, SymVar{Name: base + ".len", W: 8, Kind: "len"})
		in.assume(in.ts.Bin(term.OpULe, lv, in.ts.Const(8, uint64(max))))
		n := int(in.concretize(lv))
		b := make([]value, n)
		for i := range b {
			nm := fmt.Sprintf("%s[%d]", base, i)
			in.symVars = append(in.symVars, SymVar{Name: nm, W: 8, Kind: "byte"})
			b[i] = &Sym{T: in.ts.Var(nm, 8), K: types.Uint8}
		}
		if asBytes {
			return b
		}
		return mkString(b)
	}
}

func symStringN(fr *frame, args []value) value {
	in := fr.i
	name := goStr(args[0])
	n := int(asInt64(args[1]))
	k := in.symSeq[name]
	in.symSeq[name] = k + 1
	base := fmt.Sprintf("%s#%d", name, k)
	b := make([]value, n)
	for i := range b {
		nm := fmt.Sprintf("%s[%d]", base, i)
		in.symVars = append(in.symVars, SymVar{Name: nm, W: 8, Kind: "byte"})
		b[i] = &Sym{T: in.ts.Var(nm, 8), K: types.Uint8}
	}
	return mkString(b)
}

func symChoice(fr *frame, args []value) value {
	in := fr.i
	n := int(asInt64(args[1]))
	v := in.freshVar(goStr(args[0]), 8, "choice")
	in.assume(in.ts.Bin(term.OpULt, v, in.ts.Const(8, uint64(n))))
	return int(in.concretize(v))
}

func symConcretize(fr *frame, args []value) value {
	in := fr.i
	s, ok := args[0].(*Sym)
	if !ok {
		return args[0]
	}
	return constOfKind(in.concretize(s.T), s.K)
}

func symAssume(fr *frame, args []value) value {
	fr.i.assume(fr.i.toTerm(args[0]))
	return nil
}

func symAssert(fr *frame, args []value) value {
	fr.i.assert(fr.i.toTerm(args[0]), goStr(args[1]))
	return nil
}

func symFail(fr *frame, args []value) value {
	fr.i.reportFailure("assert", goStr(args[0]))
	panic(pathEnd{"sym.Fail"})
}

func symReach(fr *frame, args []value) value {
	fr.i.reached[goStr(args[0])] = true
	return nil
}

func symObserve(fr *frame, args []value) value {
	in := fr.i
	v := args[1]
	if it, ok := v.(iface); ok {
		v = it.v
	}
	in.observes = append(in.observes, Observation{Name: goStr(args[0]), Val: in.renderObserved(v)})
	return nil
}

// renderObserved prints a value with symbolic parts evaluated under the model.
func (in *Interp) renderObserved(v value) string {
	switch v := v.(type) {
	case *Sym:
		x := in.eval(v.T)
		return fmt.Sprint(constOfKind(x, v.K))
	case symString:
		b := make([]byte, len(v.b))
		for i, e := range v.b {
			if s, ok := e.(*Sym); ok {
				b[i] = byte(in.eval(s.T))
			} else {
				b[i] = e.(uint8)
			}
		}
		return strconv.Quote(string(b))
	case string:
		return strconv.Quote(v)
	case []value:
		parts := make([]string, len(v))
		for i, e := range v {
			parts[i] = in.renderObserved(e)
		}
		return "[" + strings.Join(parts, " ") + "]"
	case iface:
		if v.t == nil {
			return "<nil>"
		}
		return in.renderObserved(v.v)
	case nil:
		return "<nil>"
	}
	return fmt.Sprint(v)
}

func symBound(fr *frame, args []value) value {
	in := fr.i
	b := fmt.Sprintf("%s: %s=%d", in.ex.fn.Name(), goStr(args[0]), asInt64(args[1]))
	in.ex.mu.Lock()
	if !in.ex.res.boundSeen[b] {
		in.ex.res.boundSeen[b] = true
		in.ex.res.Bounds = append(in.ex.res.Bounds, b)
	}
	in.ex.mu.Unlock()
	return nil
}

func symKnown(fr *frame, args []value) value {
	in := fr.i
	if !in.cfg.KnownActive[goStr(args[0])] {
		return nil
	}
	in.known = append(in.known, knownClass{id: goStr(args[0]), cond: in.toTerm(args[1])})
	return nil
}

// ------------------------------------------------------------------ sync

func (in *Interp) intField(p *value) int64 { return asInt64(*p) }

// Mutex{state int32, sema uint32}: state 0 free, 1 held.
func mutexLock(fr *frame, args []value) value {
	in := fr.i
	st := mutexState(args[0])
	in.yield(fr)
	in.block(fr, "Mutex.Lock", func() bool { return asInt64(*st) == 0 })
	in.set(st, int32(1))
	return nil
}

// mutexState finds the int32 state word of a sync.Mutex (whose layout wraps
// internal/sync.Mutex behind a noCopy marker in recent Go versions).
func mutexState(p value) *value {
	if st := findInt32((*p.(*value)).(structure)); st != nil {
		return st
	}
	panic(engineError{"sync.Mutex layout"})
}

func findInt32(s structure) *value {
	for i := range s {
		switch f := s[i].(type) {
		case int32:
			return &s[i]
		case structure:
			if r := findInt32(f); r != nil {
				return r
			}
		}
	}
	return nil
}

func mutexUnlock(fr *frame, args []value) value {
	in := fr.i
	st := mutexState(args[0])
	if asInt64(*st) == 0 {
		panic(targetPanic{v: in.runtimeError("sync: unlock of unlocked mutex")})
	}
	in.set(st, int32(0))
	return nil
}

func mutexTryLock(fr *frame, args []value) value {
	in := fr.i
	st := mutexState(args[0])
	in.yield(fr)
	if asInt64(*st) == 0 {
		in.set(st, int32(1))
		return true
	}
	return false
}

// RWMutex{w Mutex, writerSem, readerSem uint32, readerCount, readerWait atomic.Int32}
// We keep: writer held flag in w.state, reader count in readerCount.v.
func rwParts(p value) (w *value, rc *value) {
	s := (*p.(*value)).(structure)
	// first Mutex-typed field is w; readerCount is the first atomic.Int32 after it
	var ints []*value
	var walk func(st structure)
	walk = func(st structure) {
		for i := range st {
			switch f := st[i].(type) {
			case int32:
				ints = append(ints, &st[i])
			case structure:
				walk(f)
			}
		}
	}
	walk(s)
	if len(ints) < 2 {
		panic(engineError{"sync.RWMutex layout"})
	}
	return ints[0], ints[1]
}

func rwLock(fr *frame, args []value) value {
	in := fr.i
	w, rc := rwParts(args[0])
	in.yield(fr)
	in.block(fr, "RWMutex.Lock", func() bool { return asInt64(*w) == 0 && asInt64(*rc) == 0 })
	in.set(w, int32(1))
	return nil
}

func rwUnlock(fr *frame, args []value) value {
	in := fr.i
	w, _ := rwParts(args[0])
	if asInt64(*w) == 0 {
		panic(targetPanic{v: in.runtimeError("sync: Unlock of unlocked RWMutex")})
	}
	in.set(w, int32(0))
	return nil
}

func rwRLock(fr *frame, args []value) value {
	in := fr.i
	w, rc := rwParts(args[0])
	in.yield(fr)
	in.block(fr, "RWMutex.RLock", func() bool { return asInt64(*w) == 0 })
	in.set(rc, int32(asInt64(*rc)+1))
	return nil
}

func rwRUnlock(fr *frame, args []value) value {
	in := fr.i
	_, rc := rwParts(args[0])
	if asInt64(*rc) <= 0 {
		panic(targetPanic{v: in.runtimeError("sync: RUnlock of unlocked RWMutex")})
	}
	in.set(rc, int32(asInt64(*rc)-1))
	return nil
}

// Once{_ noCopy; done atomic.Uint32; m Mutex}
func onceDo(fr *frame, args []value) value {
	in := fr.i
	s := (*args[0].(*value)).(structure)
	var done *value
	for i := range s {
		if st, ok := s[i].(structure); ok && len(st) >= 1 {
			if _, isU := st[len(st)-1].(uint32); isU {
				done = &st[len(st)-1]
				break
			}
		}
	}
	if done == nil {
		unsupported("sync.Once layout")
	}
	in.yield(fr)
	if (*done).(uint32) == 0 {
		in.set(done, uint32(1))
		in.call(fr, token.NoPos, args[1], nil)
	}
	return nil
}

// WaitGroup: keep the counter in the first uint64-like atomic field.
func wgCounter(p value) *value {
	s := (*p.(*value)).(structure)
	for i := range s {
		if st, ok := s[i].(structure); ok {
			for j := range st {
				if _, ok := st[j].(uint64); ok {
					return &st[j]
				}
			}
		}
	}
	panic(engineError{"sync.WaitGroup layout"})
}

func wgAdd(fr *frame, args []value) value {
	in := fr.i
	c := wgCounter(args[0])
	n := int64((*c).(uint64)) + asInt64(args[1])
	if n < 0 {
		panic(targetPanic{v: in.runtimeError("sync: negative WaitGroup counter")})
	}
	in.set(c, uint64(n))
	return nil
}

func wgWait(fr *frame, args []value) value {
	in := fr.i
	c := wgCounter(args[0])
	in.yield(fr)
	in.block(fr, "WaitGroup.Wait", func() bool { return (*c).(uint64) == 0 })
	return nil
}

func poolGet(fr *frame, args []value) value {
	s := (*args[0].(*value)).(structure)
	newFn := s[len(s)-1]
	switch f := newFn.(type) {
	case *ssa.Function:
		if f == nil {
			return iface{}
		}
	case nil:
		return iface{}
	}
	return fr.i.call(fr, token.NoPos, newFn, nil)
}

func atomicLoad(fr *frame, args []value) value {
	fr.i.yield(fr)
	return *args[0].(*value)
}

func atomicStore(fr *frame, args []value) value {
	fr.i.yield(fr)
	fr.i.set(args[0].(*value), args[1])
	return nil
}

func atomicAdd(fr *frame, args []value) value {
	in := fr.i
	in.yield(fr)
	p := args[0].(*value)
	nv := in.binop(token.ADD, nil, *p, args[1])
	in.set(p, nv)
	return nv
}

func atomicSwap(fr *frame, args []value) value {
	in := fr.i
	in.yield(fr)
	p := args[0].(*value)
	old := *p
	in.set(p, args[1])
	return old
}

func atomicCAS(fr *frame, args []value) value {
	in := fr.i
	in.yield(fr)
	p := args[0].(*value)
	var eq bool
	switch o := args[1].(type) {
	case unsafePtr:
		c, _ := (*p).(unsafePtr)
		eq = c.p == o.p
	default:
		eq = in.truth(in.equals(nil, *p, args[1]))
	}
	if eq {
		in.set(p, args[2])
		return true
	}
	return false
}

// ------------------------------------------------------------------ strings

func idxByte(fr *frame, args []value) value {
	in := fr.i
	var b []value
	if isStr(args[0]) {
		b = strBytes(args[0])
	} else {
		b = args[0].([]value)
	}
	for i, e := range b {
		if in.truth(in.equals(nil, e, args[1])) {
			return i
		}
	}
	return -1
}

func cntByte(fr *frame, args []value) value {
	in := fr.i
	var b []value
	if isStr(args[0]) {
		b = strBytes(args[0])
	} else {
		b = args[0].([]value)
	}
	n := 0
	for _, e := range b {
		if in.truth(in.equals(nil, e, args[1])) {
			n++
		}
	}
	return n
}

func bytesOf(v value) []value {
	if isStr(v) {
		return strBytes(v)
	}
	return v.([]value)
}

func strIndex(fr *frame, args []value) value {
	in := fr.i
	if s, ok := args[0].(string); ok {
		if t, ok := args[1].(string); ok {
			return strings.Index(s, t)
		}
	}
	s, sub := bytesOf(args[0]), bytesOf(args[1])
	for i := 0; i+len(sub) <= len(s); i++ {
		if in.truth(in.strEq(mkString(s[i:i+len(sub)]), mkString(sub))) {
			return i
		}
	}
	return -1
}

func strLastIndex(fr *frame, args []value) value {
	in := fr.i
	if s, ok := args[0].(string); ok {
		if t, ok := args[1].(string); ok {
			return strings.LastIndex(s, t)
		}
	}
	s, sub := bytesOf(args[0]), bytesOf(args[1])
	for i := len(s) - len(sub); i >= 0; i-- {
		if in.truth(in.strEq(mkString(s[i:i+len(sub)]), mkString(sub))) {
			return i
		}
	}
	return -1
}

func strCompare(fr *frame, args []value) value {
	in := fr.i
	a, b := mkString(bytesOf(args[0])), mkString(bytesOf(args[1]))
	if in.truth(in.strEq(a, b)) {
		return 0
	}
	if in.branch(in.strLess(a, b, false)) {
		return -1
	}
	return 1
}

// ------------------------------------------------------------------ time

// The harness clock. sym.Clock() reads an arbitrary instant not earlier than
// the previous reading (second resolution, no monotonic part); time.Now()
// inside the code under test returns the most recent reading, i.e. code runs
// instantaneously between two harness readings. (A counterexample that needs
// the clock to jump between two adjacent time.Now() calls of one function is
// not realistic, and could not be replayed natively.)
func timeNow(fr *frame, args []value) value {
	in := fr.i
	if in.initDepth > 0 || in.cfg == nil {
		return in.mkTime(in.ts.Const(64, 63900000000))
	}
	if in.clockLast == nil {
		return symClock(fr, args)
	}
	return in.mkTimeHalf(in.clockLast, in.clockHalf)
}

// mkTimeHalf: sec plus an optional half second (h is an 8-bit 0/1 term).
func (in *Interp) mkTimeHalf(sec, h *term.Term) value {
	t := in.mkTime(sec).(structure)
	if h != nil {
		ns := in.ts.Ite(in.ts.Eq(h, in.ts.Const(8, 1)), in.ts.Const(64, 500000000), in.ts.Const(64, 0))
		t[0] = in.fromTerm(ns, types.Uint64)
	}
	return t
}

// symClockFine is sym.ClockFine: like Clock, but the instant also carries an
// arbitrary half second, so that code that truncates instants to whole seconds
// can be told from code that compares them exactly.
func symClockFine(fr *frame, args []value) value {
	in := fr.i
	v := in.freshVar("clock", 64, "clock")
	h := in.freshVar("clockhalf", 8, "choice")
	in.assume(in.ts.Bin(term.OpULe, h, in.ts.Const(8, 1)))
	in.assume(in.ts.And(in.ts.Bin(term.OpULe, in.ts.Const(64, 63900000000), v), in.ts.Bin(term.OpULe, v, in.ts.Const(64, 64900000000))))
	if in.clockLast != nil {
		later := in.ts.Bin(term.OpULt, in.clockLast, v)
		same := in.ts.Eq(in.clockLast, v)
		if in.clockHalf != nil {
			same = in.ts.And(same, in.ts.Bin(term.OpULe, in.clockHalf, h))
		}
		in.assume(in.ts.Or(later, same))
	}
	in.clockLast, in.clockHalf = v, h
	in.clockWithinSpan(v)
	return in.mkTimeHalf(v, h)
}

func symClock(fr *frame, args []value) value {
	in := fr.i
	v := in.freshVar("clock", 64, "clock")
	lo := in.ts.Const(64, 63900000000)
	if in.clockLast != nil {
		lo = in.clockLast
	}
	in.assume(in.ts.And(in.ts.Bin(term.OpULe, lo, v), in.ts.Bin(term.OpULe, v, in.ts.Const(64, 64900000000))))
	if in.clockHalf != nil {
		// a whole-second reading after a fine one must not go back in time
		in.assume(in.ts.Or(in.ts.Bin(term.OpULt, in.clockLast, v), in.ts.Eq(in.clockHalf, in.ts.Const(8, 0))))
	}
	in.clockLast, in.clockHalf = v, nil
	in.clockWithinSpan(v)
	return in.mkTime(v)
}

// clockWithinSpan keeps every reading within clockSpan seconds of the first
// one (sym.ClockSpan), when the harness asked for that.
func (in *Interp) clockWithinSpan(v *term.Term) {
	if in.clockFirst == nil {
		in.clockFirst = v
		return
	}
	if in.clockSpan > 0 {
		in.assume(in.ts.Bin(term.OpULe, v, in.ts.Bin(term.OpAdd, in.clockFirst, in.ts.Const(64, in.clockSpan))))
	}
}

// symInstant: an arbitrary instant in the clock's range, unrelated to the
// clock readings.
func symInstant(fr *frame, args []value) value {
	in := fr.i
	name := goStr(args[0])
	v := in.freshVar(name, 64, name)
	in.assume(in.ts.And(in.ts.Bin(term.OpULe, in.ts.Const(64, 63900000000), v), in.ts.Bin(term.OpULe, v, in.ts.Const(64, 64900000000))))
	return in.mkTime(v)
}

func (in *Interp) mkTime(sec *term.Term) value {
	tp := in.prog.ImportedPackage("time")
	if tp == nil {
		unsupported("time package not loaded")
	}
	loc := in.globalAddr(tp.Var("localLoc"))
	return structure{uint64(0), in.fromTerm(sec, types.Int64), loc}
}

func timeSince(fr *frame, args []value) value {
	in := fr.i
	now := timeNow(fr, nil)
	sub := in.findMethod(in.prog.ImportedPackage("time").Type("Time").Type(), "Sub")
	return in.callSSA(fr, token.NoPos, sub, []value{now, args[0]}, nil)
}

func timeUntil(fr *frame, args []value) value {
	in := fr.i
	now := timeNow(fr, nil)
	sub := in.findMethod(in.prog.ImportedPackage("time").Type("Time").Type(), "Sub")
	return in.callSSA(fr, token.NoPos, sub, []value{args[0], now}, nil)
}

// timeOpaqueText: rendering a symbolic instant as text is never what a
// property is about (it feeds log lines); it becomes a fixed placeholder.
func timeOpaqueText(fr *frame, args []value) value {
	if hasSym(args[0]) {
		return "<symbolic time>"
	}
	return fr.i.interpretBody(fr, args)
}

func uuidNew(fr *frame, args []value) value {
	a := make(array, 16)
	for i := range a {
		a[i] = uint8(0x30 + i)
	}
	a[15] = uint8(fr.i.uuidSeq)
	fr.i.uuidSeq++
	return a
}

// ------------------------------------------------------------------ sort

func sortSlice(fr *frame, args []value) value {
	in := fr.i
	s, ok := args[0].(iface).v.([]value)
	if !ok {
		unsupported("sort.Slice on %T", args[0].(iface).v)
	}
	less := args[1]
	// insertion sort: stable, and the comparison sequence is deterministic
	for i := 1; i < len(s); i++ {
		for j := i; j > 0; j-- {
			if !in.truth(in.call(fr, token.NoPos, less, []value{j, j - 1})) {
				break
			}
			a, b := s[j], s[j-1]
			in.set(&s[j], b)
			in.set(&s[j-1], a)
		}
	}
	return nil
}

// sortSliceUnstable models sort.Slice, which does not promise stability: after
// sorting, every run of mutually equal elements (neither less than the other)
// is put into an arbitrary order, a nondeterministic choice of the path.
func sortSliceUnstable(fr *frame, args []value) value {
	in := fr.i
	sortSlice(fr, args)
	s := args[0].(iface).v.([]value)
	less := args[1]
	lt := func(i, j int) bool { return in.truth(in.call(fr, token.NoPos, less, []value{i, j})) }
	for i := 0; i+1 < len(s); {
		j := i
		for j+1 < len(s) && !lt(j, j+1) && !lt(j+1, j) {
			j++
		}
		if n := j - i + 1; n > 1 && n <= 4 {
			// pick an arbitrary permutation of s[i..j] by successive choices
			for k := i; k < j; k++ {
				c := k + in.choose(j-k+1, "sorttie")
				if c != k {
					a, b := s[k], s[c]
					in.set(&s[k], b)
					in.set(&s[c], a)
				}
			}
		}
		i = j + 1
	}
	return nil
}

// ------------------------------------------------------------------ errors

func (in *Interp) callMethod(fr *frame, recv iface, name string, args ...value) (value, bool) {
	if recv.t == nil {
		return nil, false
	}
	m := in.findMethod(recv.t, name)
	if m == nil {
		return nil, false
	}
	return in.callSSA(fr, token.NoPos, m, append([]value{recv.v}, args...), nil), true
}

func comparableType(t types.Type) bool { return types.Comparable(t) }

func errorsIs(fr *frame, args []value) value {
	in := fr.i
	err, target := args[0].(iface), args[1].(iface)
	if err.t == nil || target.t == nil {
		return err.t == nil && target.t == nil
	}
	return in.errIs(fr, err, target, 0)
}

func (in *Interp) errIs(fr *frame, err, target iface, depth int) bool {
	if depth > 32 {
		return false
	}
	for err.t != nil {
		if comparableType(target.t) && sameType(err.t, target.t) && in.truth(in.equals(err.t, err.v, target.v)) {
			return true
		}
		if m := in.findMethod(err.t, "Is"); m != nil && m.Signature.Params().Len() == 1 {
			if in.truth(in.callSSA(fr, token.NoPos, m, []value{err.v, target}, nil)) {
				return true
			}
		}
		m := in.findMethod(err.t, "Unwrap")
		if m == nil {
			return false
		}
		r := in.callSSA(fr, token.NoPos, m, []value{err.v}, nil)
		switch r := r.(type) {
		case iface:
			err = r
		case []value:
			for _, e := range r {
				if in.errIs(fr, e.(iface), target, depth+1) {
					return true
				}
			}
			return false
		default:
			return false
		}
	}
	return false
}

func errorsAs(fr *frame, args []value) value {
	in := fr.i
	err := args[0].(iface)
	tgt := args[1].(iface)
	if tgt.t == nil {
		panic(targetPanic{v: in.runtimeError("errors: target cannot be nil")})
	}
	ptr := tgt.v.(*value)
	elemT := deref(tgt.t)
	_, isIface := elemT.Underlying().(*types.Interface)
	for depth := 0; err.t != nil && depth < 32; depth++ {
		if isIface {
			if types.Implements(err.t, elemT.Underlying().(*types.Interface)) {
				in.set(ptr, err)
				return true
			}
		} else if types.Identical(err.t, elemT) {
			in.store(elemT, ptr, err.v)
			return true
		}
		m := in.findMethod(err.t, "Unwrap")
		if m == nil {
			return false
		}
		r, ok := in.callSSA(fr, token.NoPos, m, []value{err.v}, nil).(iface)
		if !ok {
			return false
		}
		err = r
	}
	return false
}

// ------------------------------------------------------------------ sync.Map

func (in *Interp) syncMap(p value) *omap {
	key := fld(p, 0)
	if m, ok := in.syncMaps[key]; ok {
		return m
	}
	m := newOmap(types.NewInterfaceType(nil, nil))
	in.syncMaps[key] = m
	return m
}

func init() {
	sm := map[string]intrinsic{
		"(*sync.Map).Load": func(fr *frame, a []value) value {
			fr.i.yield(fr)
			if e := fr.i.mapFind(fr.i.syncMap(a[0]), a[1]); e != nil {
				return tuple{e.val, true}
			}
			return tuple{iface{}, false}
		},
		"(*sync.Map).Store": func(fr *frame, a []value) value {
			fr.i.yield(fr)
			fr.i.mapInsert(fr.i.syncMap(a[0]), a[1], a[2])
			return nil
		},
		"(*sync.Map).LoadOrStore": func(fr *frame, a []value) value {
			fr.i.yield(fr)
			m := fr.i.syncMap(a[0])
			if e := fr.i.mapFind(m, a[1]); e != nil {
				return tuple{e.val, true}
			}
			fr.i.mapInsert(m, a[1], a[2])
			return tuple{a[2], false}
		},
		"(*sync.Map).LoadAndDelete": func(fr *frame, a []value) value {
			fr.i.yield(fr)
			m := fr.i.syncMap(a[0])
			if e := fr.i.mapFind(m, a[1]); e != nil {
				v := e.val
				fr.i.mapDelete(m, a[1])
				return tuple{v, true}
			}
			return tuple{iface{}, false}
		},
		"(*sync.Map).Delete": func(fr *frame, a []value) value {
			fr.i.yield(fr)
			fr.i.mapDelete(fr.i.syncMap(a[0]), a[1])
			return nil
		},
		"(*sync.Map).Swap": func(fr *frame, a []value) value {
			fr.i.yield(fr)
			m := fr.i.syncMap(a[0])
			var prev value = iface{}
			loaded := false
			if e := fr.i.mapFind(m, a[1]); e != nil {
				prev, loaded = e.val, true
			}
			fr.i.mapInsert(m, a[1], a[2])
			return tuple{prev, loaded}
		},
		"(*sync.Map).Clear": func(fr *frame, a []value) value {
			fr.i.mapClear(fr.i.syncMap(a[0]))
			return nil
		},
		"(*sync.Map).Range": func(fr *frame, a []value) value {
			in := fr.i
			m := in.syncMap(a[0])
			var snap []*mentry
			for _, e := range m.entries {
				if !e.dead {
					snap = append(snap, e)
				}
			}
			for _, e := range snap {
				if e.dead {
					continue
				}
				if !in.truth(in.call(fr, token.NoPos, a[1], []value{e.key, e.val})) {
					break
				}
			}
			return nil
		},
	}
	for k, v := range sm {
		intrinsics[k] = v
	}
}
