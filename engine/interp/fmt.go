package interp

import (
	"fmt"
	"go/token"
	"go/types"
	"strings"

	"verif/engine/term"
)

// A native model of fmt's Sprintf family that understands symbolic operands.
// The format string must be concrete. Operands that are errors or Stringers
// have their (interpreted) method called, as fmt does.

func (in *Interp) fmtOperand(fr *frame, a value, verb byte, flags string) []value {
	it, isIface := a.(iface)
	var v value = a
	var t types.Type
	if isIface {
		if it.t == nil {
			if verb == 'v' || verb == 's' {
				return strBytes("<nil>")
			}
			return strBytes("%!" + string(verb) + "(<nil>)")
		}
		v, t = it.v, it.t
	}
	if verb == 'T' {
		if t == nil {
			return strBytes("<nil>")
		}
		return strBytes(typeString(t))
	}
	// error / Stringer
	if t != nil && (verb == 'v' || verb == 's' || verb == 'q') {
		if p, ok := v.(*value); ok && p == nil {
			if _, isPtr := t.Underlying().(*types.Pointer); isPtr {
				return strBytes("<nil>")
			}
		}
		for _, name := range []string{"Error", "String"} {
			if m := in.findMethod(t, name); m != nil && m.Signature.Params().Len() == 0 && m.Signature.Results().Len() == 1 {
				if b, ok := m.Signature.Results().At(0).Type().Underlying().(*types.Basic); ok && b.Kind() == types.String {
					s := in.callSSA(fr, token.NoPos, m, []value{v}, nil)
					if verb == 'q' {
						return in.quote(fr, s)
					}
					return strBytes(s)
				}
			}
		}
	}
	switch x := v.(type) {
	case string:
		switch verb {
		case 's', 'v':
			if flags == "" {
				return strBytes(x)
			}
		}
		return strBytes(fmt.Sprintf("%"+flags+string(verb), x))
	case symString:
		switch verb {
		case 's', 'v':
			if flags == "" {
				return x.b
			}
		case 'q':
			return in.quote(fr, x)
		}
		unsupported("fmt verb %%%s%c on symbolic string", flags, verb)
	case *Sym:
		if flags != "" && flags != "+" {
			unsupported("fmt flags %q on symbolic scalar", flags)
		}
		switch {
		case x.K == types.Bool:
			if in.branch(x.T) {
				return strBytes("true")
			}
			return strBytes("false")
		case verb == 'd' || verb == 'v':
			if kindSigned(x.K) {
				return strBytes(in.callNamed("strconv", "FormatInt", in.fromTerm(in.ts.SExt(x.T, 64), types.Int64), 10))
			}
			return strBytes(in.callNamed("strconv", "FormatUint", in.fromTerm(in.ts.ZExt(x.T, 64), types.Uint64), 10))
		case verb == 'x':
			return strBytes(in.callNamed("strconv", "FormatUint", in.fromTerm(in.ts.ZExt(x.T, 64), types.Uint64), 16))
		case verb == 'c':
			return strBytes(in.conv(fr, types.Typ[types.String], types.Typ[types.Int32], in.fromTerm(in.convInt(x, types.Int32), types.Int32)))
		}
		unsupported("fmt verb %%%c on symbolic scalar", verb)
	case bool, int, int8, int16, int32, int64, uint, uint8, uint16, uint32, uint64, uintptr, float32, float64, complex64, complex128:
		return strBytes(fmt.Sprintf("%"+flags+string(verb), x))
	case nil:
		return strBytes("<nil>")
	}
	if verb == 'v' || verb == 's' || verb == 'd' || verb == 'q' || verb == 'x' {
		return in.fmtComposite(fr, v, t, verb, flags, 0)
	}
	if verb == 'p' {
		return strBytes("0xc000010000")
	}
	return strBytes(fmt.Sprintf("%%!%c(%s)", verb, toString(v)))
}

func typeString(t types.Type) string {
	return types.TypeString(t, func(p *types.Package) string { return p.Name() })
}

func (in *Interp) quote(fr *frame, s value) []value {
	if c, ok := s.(string); ok {
		return strBytes(fmt.Sprintf("%q", c))
	}
	return strBytes(in.callNamed("strconv", "Quote", s))
}

func (in *Interp) fmtComposite(fr *frame, v value, t types.Type, verb byte, flags string, depth int) []value {
	if depth > 6 {
		return strBytes("...")
	}
	var out []value
	elemType := func(i int) types.Type {
		if t == nil {
			return nil
		}
		switch u := t.Underlying().(type) {
		case *types.Slice:
			return u.Elem()
		case *types.Array:
			return u.Elem()
		case *types.Struct:
			return u.Field(i).Type()
		case *types.Pointer:
			if st, ok := u.Elem().Underlying().(*types.Struct); ok {
				return st.Field(i).Type()
			}
		}
		return nil
	}
	sub := func(e value, et types.Type) []value {
		if et != nil {
			if _, isI := et.Underlying().(*types.Interface); !isI {
				e = iface{t: et, v: e}
			}
		}
		return in.fmtOperand(fr, e, verb, "")
	}
	switch x := v.(type) {
	case []value:
		if t != nil {
			if sl, ok := t.Underlying().(*types.Slice); ok {
				if b, ok := sl.Elem().Underlying().(*types.Basic); ok && b.Kind() == types.Uint8 && (verb == 's' || verb == 'q') {
					return strBytes(mkString(x))
				}
			}
		}
		out = append(out, uint8('['))
		for i, e := range x {
			if i > 0 {
				out = append(out, uint8(' '))
			}
			out = append(out, sub(e, elemType(i))...)
		}
		return append(out, uint8(']'))
	case array:
		out = append(out, uint8('['))
		for i, e := range x {
			if i > 0 {
				out = append(out, uint8(' '))
			}
			out = append(out, sub(e, elemType(i))...)
		}
		return append(out, uint8(']'))
	case structure:
		out = append(out, uint8('{'))
		for i, e := range x {
			if i > 0 {
				out = append(out, uint8(' '))
			}
			if flags == "+" && t != nil {
				if st, ok := t.Underlying().(*types.Struct); ok {
					out = append(out, strBytes(st.Field(i).Name()+":")...)
				}
			}
			out = append(out, sub(e, elemType(i))...)
		}
		return append(out, uint8('}'))
	case *value:
		if x == nil {
			return strBytes("<nil>")
		}
		if st, ok := (*x).(structure); ok && depth == 0 {
			var et types.Type
			if t != nil {
				et = deref(t)
			}
			return append([]value{uint8('&')}, in.fmtComposite(fr, st, et, verb, flags, depth+1)...)
		}
		return strBytes("0xc000010000")
	case *omap:
		out = append(out, strBytes("map[")...)
		first := true
		for _, e := range x.entries {
			if e.dead {
				continue
			}
			if !first {
				out = append(out, uint8(' '))
			}
			first = false
			out = append(out, in.fmtOperand(fr, e.key, 'v', "")...)
			out = append(out, uint8(':'))
			out = append(out, in.fmtOperand(fr, e.val, 'v', "")...)
		}
		return append(out, uint8(']'))
	case iface:
		return in.fmtOperand(fr, x, verb, "")
	}
	return strBytes(toString(v))
}

// sprintf renders a concrete format with possibly symbolic operands.
func (in *Interp) sprintf(fr *frame, format string, args []value) (out []value, wrapped []iface) {
	argi := 0
	for i := 0; i < len(format); i++ {
		c := format[i]
		if c != '%' {
			out = append(out, c)
			continue
		}
		i++
		if i >= len(format) {
			out = append(out, strBytes("%!(NOVERB)")...)
			break
		}
		j := i
		for j < len(format) && strings.IndexByte("+-# 0123456789.*", format[j]) >= 0 {
			j++
		}
		flags := format[i:j]
		if j >= len(format) {
			out = append(out, strBytes("%!(NOVERB)")...)
			break
		}
		verb := format[j]
		i = j
		if verb == '%' {
			out = append(out, uint8('%'))
			continue
		}
		if strings.Contains(flags, "*") {
			unsupported("fmt: * width")
		}
		if argi >= len(args) {
			out = append(out, strBytes("%!"+string(verb)+"(MISSING)")...)
			continue
		}
		a := args[argi]
		argi++
		if verb == 'w' {
			if it, ok := a.(iface); ok {
				wrapped = append(wrapped, it)
			}
			verb = 'v'
		}
		out = append(out, in.fmtOperand(fr, a, verb, flags)...)
	}
	if argi < len(args) {
		out = append(out, strBytes("%!(EXTRA ")...)
		for k := argi; k < len(args); k++ {
			if k > argi {
				out = append(out, strBytes(", ")...)
			}
			out = append(out, in.fmtOperand(fr, args[k], 'T', "")...)
			out = append(out, uint8('='))
			out = append(out, in.fmtOperand(fr, args[k], 'v', "")...)
		}
		out = append(out, uint8(')'))
	}
	return
}

func fmtSprintf(fr *frame, args []value) value {
	b, _ := fr.i.sprintf(fr, goStr(args[0]), args[1].([]value))
	return mkString(b)
}

func (in *Interp) sprint(fr *frame, args []value, ln bool) []value {
	var out []value
	prevStr := false
	for i, a := range args {
		isS := false
		if it, ok := a.(iface); ok && it.t != nil {
			if b, ok := it.t.Underlying().(*types.Basic); ok && b.Kind() == types.String {
				isS = true
			}
		}
		if i > 0 && (ln || (!isS && !prevStr)) {
			out = append(out, uint8(' '))
		}
		out = append(out, in.fmtOperand(fr, a, 'v', "")...)
		prevStr = isS
	}
	if ln {
		out = append(out, uint8('\n'))
	}
	return out
}

func fmtSprint(ln bool) intrinsic {
	return func(fr *frame, args []value) value {
		return mkString(fr.i.sprint(fr, args[0].([]value), ln))
	}
}

func fmtErrorf(fr *frame, args []value) value {
	in := fr.i
	b, wrapped := in.sprintf(fr, goStr(args[0]), args[1].([]value))
	msg := mkString(b)
	fmtPkg := in.prog.ImportedPackage("fmt")
	if len(wrapped) == 1 && fmtPkg != nil {
		wt := fmtPkg.Type("wrapError").Type()
		var s value = structure{msg, wrapped[0]}
		return iface{t: types.NewPointer(wt), v: &s}
	}
	return in.callNamed("errors", "New", msg)
}

func (in *Interp) writeTo(fr *frame, w value, b []value) value {
	wi := w.(iface)
	if wi.t == nil {
		in.nilDeref()
	}
	r, ok := in.callMethod(fr, wi, "Write", append([]value(nil), b...))
	if !ok {
		unsupported("fmt.Fprint: writer %s has no Write", wi.t)
	}
	return r
}

func fmtFprintf(fr *frame, args []value) value {
	b, _ := fr.i.sprintf(fr, goStr(args[1]), args[2].([]value))
	return fr.i.writeTo(fr, args[0], b)
}

func fmtFprint(ln bool) intrinsic {
	return func(fr *frame, args []value) value {
		return fr.i.writeTo(fr, args[0], fr.i.sprint(fr, args[1].([]value), ln))
	}
}

var _ = term.OpAdd
