package interp

import (
	"fmt"
	"go/token"
	"go/types"
	"unicode/utf8"

	"golang.org/x/tools/go/ssa"
	"verif/engine/term"
)

func kindWidth(k types.BasicKind) uint8 {
	switch k {
	case types.Bool, types.UntypedBool:
		return 0
	case types.Int8, types.Uint8:
		return 8
	case types.Int16, types.Uint16:
		return 16
	case types.Int32, types.Uint32, types.UntypedRune:
		return 32
	case types.Int, types.Int64, types.Uint, types.Uint64, types.Uintptr, types.UntypedInt:
		return 64
	}
	panic(engineError{fmt.Sprintf("kindWidth: unsupported kind %v", k)})
}

func kindSigned(k types.BasicKind) bool {
	switch k {
	case types.Int, types.Int8, types.Int16, types.Int32, types.Int64, types.UntypedInt, types.UntypedRune:
		return true
	}
	return false
}

func basicKind(t types.Type) (types.BasicKind, bool) {
	b, ok := t.Underlying().(*types.Basic)
	if !ok {
		return 0, false
	}
	return b.Kind(), true
}

func kindOf(v value) types.BasicKind {
	switch v := v.(type) {
	case bool:
		return types.Bool
	case int:
		return types.Int
	case int8:
		return types.Int8
	case int16:
		return types.Int16
	case int32:
		return types.Int32
	case int64:
		return types.Int64
	case uint:
		return types.Uint
	case uint8:
		return types.Uint8
	case uint16:
		return types.Uint16
	case uint32:
		return types.Uint32
	case uint64:
		return types.Uint64
	case uintptr:
		return types.Uintptr
	case *Sym:
		return v.K
	}
	panic(engineError{fmt.Sprintf("kindOf: not a symbolic-capable scalar: %T", v)})
}

// toTerm converts a bool/integer value (concrete or symbolic) to a term.
func (in *Interp) toTerm(v value) *term.Term {
	switch v := v.(type) {
	case *Sym:
		return v.T
	case bool:
		return in.ts.Bool(v)
	case int:
		return in.ts.Const(64, uint64(v))
	case int8:
		return in.ts.Const(8, uint64(v))
	case int16:
		return in.ts.Const(16, uint64(v))
	case int32:
		return in.ts.Const(32, uint64(v))
	case int64:
		return in.ts.Const(64, uint64(v))
	case uint:
		return in.ts.Const(64, uint64(v))
	case uint8:
		return in.ts.Const(8, uint64(v))
	case uint16:
		return in.ts.Const(16, uint64(v))
	case uint32:
		return in.ts.Const(32, uint64(v))
	case uint64:
		return in.ts.Const(64, v)
	case uintptr:
		return in.ts.Const(64, uint64(v))
	}
	panic(engineError{fmt.Sprintf("toTerm: unsupported symbolic operand %T", v)})
}

// fromTerm boxes a term as a value of kind k, concretely when constant.
func (in *Interp) fromTerm(t *term.Term, k types.BasicKind) value {
	if !t.IsConst() {
		return &Sym{T: t, K: k}
	}
	return constOfKind(t.Val, k)
}

func constOfKind(v uint64, k types.BasicKind) value {
	switch k {
	case types.Bool, types.UntypedBool:
		return v != 0
	case types.Int, types.UntypedInt:
		return int(v)
	case types.Int8:
		return int8(v)
	case types.Int16:
		return int16(v)
	case types.Int32, types.UntypedRune:
		return int32(v)
	case types.Int64:
		return int64(v)
	case types.Uint:
		return uint(v)
	case types.Uint8:
		return uint8(v)
	case types.Uint16:
		return uint16(v)
	case types.Uint32:
		return uint32(v)
	case types.Uint64:
		return uint64(v)
	case types.Uintptr:
		return uintptr(v)
	}
	panic(engineError{fmt.Sprintf("constOfKind: kind %v", k)})
}

// to64 widens a symbolic integer to 64 bits respecting its signedness.
func (in *Interp) to64(s *Sym) *term.Term {
	if kindSigned(s.K) {
		return in.ts.SExt(s.T, 64)
	}
	return in.ts.ZExt(s.T, 64)
}

func (in *Interp) val64(v value) *term.Term {
	if s, ok := v.(*Sym); ok {
		return in.to64(s)
	}
	return in.ts.Const(64, uint64(asInt64(v)))
}

// truth decides a boolean value, forking when it is symbolic.
func (in *Interp) truth(v value) bool {
	switch v := v.(type) {
	case bool:
		return v
	case *Sym:
		return in.branchBool(v.T)
	}
	panic(engineError{fmt.Sprintf("truth: %T", v)})
}

// branchBool decides a condition; conjunctions and disjunctions over several
// variables are decided operand by operand (short-circuit), which keeps the
// path condition made of single-variable literals the byte domains can decide.
func (in *Interp) branchBool(c *term.Term) bool {
	if c.MV && in.summaryDepth == 0 {
		switch c.Op {
		case term.OpAnd:
			for _, a := range c.Args {
				if !in.branchBool(a) {
					return false
				}
			}
			return true
		case term.OpOr:
			for _, a := range c.Args {
				if in.branchBool(a) {
					return true
				}
			}
			return false
		case term.OpNot:
			return !in.branchBool(c.Args[0])
		}
	}
	return in.branch(c)
}

func (in *Interp) and(a, b value) value {
	if ab, ok := a.(bool); ok {
		if !ab {
			return false
		}
		return b
	}
	if bb, ok := b.(bool); ok {
		if !bb {
			return false
		}
		return a
	}
	return in.fromTerm(in.ts.And(a.(*Sym).T, b.(*Sym).T), types.Bool)
}

func (in *Interp) not(a value) value {
	if ab, ok := a.(bool); ok {
		return !ab
	}
	return in.fromTerm(in.ts.Not(a.(*Sym).T), types.Bool)
}

func (in *Interp) symEq(x *Sym, y value) value {
	return in.fromTerm(in.ts.Eq(x.T, in.toTerm(y)), types.Bool)
}

// strBytes returns the bytes of a string-like value.
func strBytes(v value) []value {
	switch v := v.(type) {
	case string:
		b := make([]value, len(v))
		for i := 0; i < len(v); i++ {
			b[i] = v[i]
		}
		return b
	case symString:
		return v.b
	}
	panic(engineError{fmt.Sprintf("strBytes: %T", v)})
}

func strLen(v value) int {
	switch v := v.(type) {
	case string:
		return len(v)
	case symString:
		return len(v.b)
	}
	panic(engineError{fmt.Sprintf("strLen: %T", v)})
}

// mkString makes a string value from bytes, concrete when possible.
func mkString(b []value) value {
	for _, e := range b {
		if _, ok := e.(*Sym); ok {
			return symString{b: append([]value(nil), b...)}
		}
	}
	buf := make([]byte, len(b))
	for i, e := range b {
		buf[i] = e.(uint8)
	}
	return string(buf)
}

func isStr(v value) bool {
	switch v.(type) {
	case string, symString:
		return true
	}
	return false
}

func (in *Interp) strEq(x, y value) value {
	if strLen(x) != strLen(y) {
		return false
	}
	xb, yb := strBytes(x), strBytes(y)
	conj := make([]*term.Term, 0, len(xb))
	for i := range xb {
		xs, xok := xb[i].(*Sym)
		ys, yok := yb[i].(*Sym)
		if !xok && !yok {
			if xb[i].(uint8) != yb[i].(uint8) {
				return false
			}
			continue
		}
		_ = xs
		_ = ys
		conj = append(conj, in.ts.Eq(in.toTerm(xb[i]), in.toTerm(yb[i])))
	}
	return in.fromTerm(in.ts.And(conj...), types.Bool)
}

// strLess builds x < y (or x <= y) lexicographically.
func (in *Interp) strLess(x, y value, orEq bool) *term.Term {
	xb, yb := strBytes(x), strBytes(y)
	n := len(xb)
	if len(yb) < n {
		n = len(yb)
	}
	var tail *term.Term
	if orEq {
		tail = in.ts.Bool(len(xb) <= len(yb))
	} else {
		tail = in.ts.Bool(len(xb) < len(yb))
	}
	for i := n - 1; i >= 0; i-- {
		a, b := in.toTerm(xb[i]), in.toTerm(yb[i])
		tail = in.ts.Ite(in.ts.Bin(term.OpULt, a, b), in.ts.True, in.ts.Ite(in.ts.Eq(a, b), tail, in.ts.False))
	}
	return tail
}

func (in *Interp) eqnil(t types.Type, x, y value) value {
	switch t.Underlying().(type) {
	case *types.Map, *types.Signature, *types.Slice:
		return isNilRef(x) == isNilRef(y) && (isNilRef(x) || sameRef(x, y))
	}
	return in.equals(t, x, y)
}

func sameRef(x, y value) bool {
	// comparisons of non-nil funcs/maps/slices are only legal against nil
	return false
}

func isNilRef(x value) bool {
	switch x := x.(type) {
	case *omap:
		return x == nil
	case *ssa.Function:
		return x == nil
	case *closure:
		return x == nil
	case *nativeFn:
		return x == nil
	case []value:
		return x == nil
	}
	panic(engineError{fmt.Sprintf("isNilRef: %T", x)})
}

func (in *Interp) divZero() {
	panic(targetPanic{v: in.runtimeError("integer divide by zero")})
}

func isZeroInt(v value) bool {
	switch v := v.(type) {
	case int:
		return v == 0
	case int8:
		return v == 0
	case int16:
		return v == 0
	case int32:
		return v == 0
	case int64:
		return v == 0
	case uint:
		return v == 0
	case uint8:
		return v == 0
	case uint16:
		return v == 0
	case uint32:
		return v == 0
	case uint64:
		return v == 0
	case uintptr:
		return v == 0
	}
	return false
}

// binop implements binary operators over concrete and symbolic operands.
func (in *Interp) binop(op token.Token, t types.Type, x, y value) value {
	switch op {
	case token.EQL:
		return in.eqnil(t, x, y)
	case token.NEQ:
		return in.not(in.eqnil(t, x, y))
	}
	_, xs := x.(*Sym)
	_, ys := y.(*Sym)
	if xs || ys {
		return in.symBinop(op, x, y)
	}
	if xf, ok := x.(symFloat); ok {
		return in.symFloatCmp(op, xf, y)
	}
	if yf, ok := y.(symFloat); ok {
		// mirror the comparison
		m := map[token.Token]token.Token{token.LSS: token.GTR, token.GTR: token.LSS, token.LEQ: token.GEQ, token.GEQ: token.LEQ}
		if mo, ok := m[op]; ok {
			return in.symFloatCmp(mo, yf, x)
		}
		unsupported("float op %s on symbolic float", op)
	}
	if isStr(x) {
		_, a := x.(symString)
		_, b := y.(symString)
		if a || b {
			switch op {
			case token.ADD:
				return mkString(append(append([]value(nil), strBytes(x)...), strBytes(y)...))
			case token.LSS:
				return in.fromTerm(in.strLess(x, y, false), types.Bool)
			case token.LEQ:
				return in.fromTerm(in.strLess(x, y, true), types.Bool)
			case token.GTR:
				return in.fromTerm(in.strLess(y, x, false), types.Bool)
			case token.GEQ:
				return in.fromTerm(in.strLess(y, x, true), types.Bool)
			}
			unsupported("string op %s on symbolic string", op)
		}
	}
	switch op {
	case token.QUO, token.REM:
		if isZeroInt(y) {
			in.divZero()
		}
	case token.SHL, token.SHR:
		if kindSignedVal(y) && asInt64(y) < 0 {
			panic(targetPanic{v: in.runtimeError("negative shift amount")})
		}
	}
	return binopConcrete(op, t, x, y)
}

// symFloatCmp compares num/div with an integer-valued concrete float.
func (in *Interp) symFloatCmp(op token.Token, x symFloat, y value) value {
	c, ok := y.(float64)
	if !ok || c != float64(int64(c)) || c > 1e15 || c < -1e15 {
		unsupported("comparison of symbolic float with %v", y)
	}
	// num/div < c  <=>  num < c*div   (div > 0, exact in integers)
	rhs := in.ts.Const(64, uint64(int64(c)*x.div))
	var t *term.Term
	switch op {
	case token.LSS:
		t = in.ts.Bin(term.OpSLt, x.num, rhs)
	case token.LEQ:
		t = in.ts.Bin(term.OpSLe, x.num, rhs)
	case token.GTR:
		t = in.ts.Bin(term.OpSLt, rhs, x.num)
	case token.GEQ:
		t = in.ts.Bin(term.OpSLe, rhs, x.num)
	default:
		unsupported("float op %s on symbolic float", op)
	}
	return in.fromTerm(t, types.Bool)
}

// symFloatEq: equality of exact rationals (see symFloat for the assumption).
func (in *Interp) symFloatEq(x symFloat, y value) value {
	switch y := y.(type) {
	case symFloat:
		if x.div == y.div {
			return in.fromTerm(in.ts.Eq(x.num, y.num), types.Bool)
		}
		unsupported("equality of symbolic floats with different denominators")
	case float64:
		if y == float64(int64(y)) && y < 1e15 && y > -1e15 {
			return in.fromTerm(in.ts.Eq(x.num, in.ts.Const(64, uint64(int64(y)*x.div))), types.Bool)
		}
	}
	unsupported("equality of a symbolic float with %v", y)
	return nil
}

func kindSignedVal(v value) bool {
	switch v.(type) {
	case int, int8, int16, int32, int64:
		return true
	}
	return false
}

func (in *Interp) symBinop(op token.Token, x, y value) value {
	ts := in.ts
	kx := kindOf(x)
	a := in.toTerm(x)
	if op == token.SHL || op == token.SHR {
		ky := kindOf(y)
		b := in.toTerm(y)
		if kindSigned(ky) {
			if in.branch(ts.Bin(term.OpSLt, b, ts.Const(b.W, 0))) {
				panic(targetPanic{v: in.runtimeError("negative shift amount")})
			}
		}
		// normalise the amount to a's width, saturating
		var amt *term.Term
		switch {
		case b.W == a.W:
			amt = b
		case b.W < a.W:
			amt = ts.ZExt(b, a.W)
		default:
			big := ts.Bin(term.OpULe, ts.Const(b.W, uint64(a.W)), b)
			amt = ts.Ite(big, ts.Const(a.W, uint64(a.W)), ts.Extract(b, a.W-1, 0))
		}
		if op == token.SHL {
			return in.fromTerm(ts.Bin(term.OpShl, a, amt), kx)
		}
		if kindSigned(kx) {
			return in.fromTerm(ts.Bin(term.OpAShr, a, amt), kx)
		}
		return in.fromTerm(ts.Bin(term.OpLShr, a, amt), kx)
	}
	b := in.toTerm(y)
	if a.W != b.W {
		unsupported("symBinop %s: width mismatch %T %T", op, x, y)
	}
	signed := kindSigned(kx)
	if kx == types.Bool {
		switch op {
		case token.AND, token.LAND:
			return in.fromTerm(ts.And(a, b), types.Bool)
		case token.OR, token.LOR:
			return in.fromTerm(ts.Or(a, b), types.Bool)
		}
		unsupported("bool op %s", op)
	}
	switch op {
	case token.ADD:
		return in.fromTerm(ts.Bin(term.OpAdd, a, b), kx)
	case token.SUB:
		return in.fromTerm(ts.Bin(term.OpSub, a, b), kx)
	case token.MUL:
		return in.fromTerm(ts.Bin(term.OpMul, a, b), kx)
	case token.QUO, token.REM:
		if in.branch(ts.Eq(b, ts.Const(b.W, 0))) {
			in.divZero()
		}
		var o term.Op
		switch {
		case op == token.QUO && signed:
			o = term.OpSDiv
		case op == token.QUO:
			o = term.OpUDiv
		case signed:
			o = term.OpSRem
		default:
			o = term.OpURem
		}
		return in.fromTerm(ts.Bin(o, a, b), kx)
	case token.AND:
		return in.fromTerm(ts.Bin(term.OpBAnd, a, b), kx)
	case token.OR:
		return in.fromTerm(ts.Bin(term.OpBOr, a, b), kx)
	case token.XOR:
		return in.fromTerm(ts.Bin(term.OpBXor, a, b), kx)
	case token.AND_NOT:
		return in.fromTerm(ts.Bin(term.OpBAnd, a, ts.Un(term.OpBNot, b)), kx)
	case token.LSS:
		if signed {
			return in.fromTerm(ts.Bin(term.OpSLt, a, b), types.Bool)
		}
		return in.fromTerm(ts.Bin(term.OpULt, a, b), types.Bool)
	case token.LEQ:
		if signed {
			return in.fromTerm(ts.Bin(term.OpSLe, a, b), types.Bool)
		}
		return in.fromTerm(ts.Bin(term.OpULe, a, b), types.Bool)
	case token.GTR:
		if signed {
			return in.fromTerm(ts.Bin(term.OpSLt, b, a), types.Bool)
		}
		return in.fromTerm(ts.Bin(term.OpULt, b, a), types.Bool)
	case token.GEQ:
		if signed {
			return in.fromTerm(ts.Bin(term.OpSLe, b, a), types.Bool)
		}
		return in.fromTerm(ts.Bin(term.OpULe, b, a), types.Bool)
	}
	unsupported("symBinop: %s", op)
	return nil
}

func (in *Interp) unop(fr *frame, instr *ssa.UnOp, x value) value {
	switch instr.Op {
	case token.ARROW:
		return in.chanRecv(fr, instr, x.(*chanObj))
	case token.MUL:
		switch p := x.(type) {
		case *value:
			if p == nil {
				in.nilDeref()
			}
			return load(deref(instr.X.Type()), p)
		case symAddr:
			return in.loadSymAddr(p)
		}
		unsupported("load through %T", x)
	}
	if f, ok := x.(symFloat); ok && instr.Op == token.SUB {
		return symFloat{num: in.ts.Un(term.OpNeg, f.num), div: f.div}
	}
	if s, ok := x.(*Sym); ok {
		switch instr.Op {
		case token.SUB:
			return in.fromTerm(in.ts.Un(term.OpNeg, s.T), s.K)
		case token.XOR:
			return in.fromTerm(in.ts.Un(term.OpBNot, s.T), s.K)
		case token.NOT:
			return in.fromTerm(in.ts.Not(s.T), types.Bool)
		}
		unsupported("symbolic unop %s", instr.Op)
	}
	return unopConcrete(instr, x)
}

// loadSymAddr reads base[idx] as an ite chain.
func (in *Interp) loadSymAddr(p symAddr) value {
	k := kindOf(p.base[0])
	w := kindWidth(k)
	_ = w
	res := in.toTerm(p.base[len(p.base)-1])
	for i := len(p.base) - 2; i >= 0; i-- {
		res = in.ts.Ite(in.ts.Eq(p.idx, in.ts.Const(64, uint64(i))), in.toTerm(p.base[i]), res)
	}
	return in.fromTerm(res, k)
}

// boundsCheck forks a target panic path when idx may be outside [0,n).
func (in *Interp) boundsCheck(idx64 *term.Term, n int) {
	ok := in.ts.Bin(term.OpULt, idx64, in.ts.Const(64, uint64(n)))
	if !in.branch(ok) {
		panic(targetPanic{v: in.runtimeError(fmt.Sprintf("index out of range [symbolic] with length %d", n))})
	}
}

// concretizeInt picks a concrete value of an in-range index, forking.
func (in *Interp) concretizeInt(idx64 *term.Term, n int) int {
	return int(in.concretize(idx64))
}

// asInt returns v as a concrete int64; a symbolic value is concretized
// after being bounded to [-1, max] (anything else aborts as unsupported).
func (in *Interp) asInt(v value, max int) int64 {
	s, ok := v.(*Sym)
	if !ok {
		return asInt64(v)
	}
	t := in.to64(s)
	if in.branch(in.ts.Bin(term.OpSLt, t, in.ts.Const(64, 0))) {
		return -1
	}
	if !in.branch(in.ts.Bin(term.OpSLe, t, in.ts.Const(64, uint64(max)))) {
		unsupported("symbolic size exceeds bound %d", max)
	}
	return int64(in.concretize(t))
}

func (in *Interp) index(x, idx value) value {
	var elems []value
	switch x := x.(type) {
	case array:
		elems = x
	case string:
		if i, ok := idx.(*Sym); !ok {
			k := asInt64(idx)
			if k < 0 || k >= int64(len(x)) {
				in.indexPanic(k, len(x))
			}
			return x[k]
		} else {
			_ = i
			elems = strBytes(x)
		}
	case symString:
		elems = x.b
	default:
		unsupported("index of %T", x)
	}
	if s, ok := idx.(*Sym); ok {
		t := in.to64(s)
		in.boundsCheck(t, len(elems))
		if scalarElems(elems) {
			return in.loadSymAddr(symAddr{base: elems, idx: t})
		}
		return elems[in.concretize(t)]
	}
	k := asInt64(idx)
	if k < 0 || k >= int64(len(elems)) {
		in.indexPanic(k, len(elems))
	}
	return elems[k]
}

func (in *Interp) lookup(instr *ssa.Lookup, x, idx value) value {
	switch x := x.(type) {
	case *omap:
		var v value
		e := in.mapFind(x, idx)
		ok := e != nil
		if ok {
			v = copyVal(instr.X.Type().Underlying().(*types.Map).Elem(), e.val)
		} else {
			v = zero(instr.X.Type().Underlying().(*types.Map).Elem())
		}
		if instr.CommaOk {
			v = tuple{v, ok}
		}
		return v
	case string, symString:
		return in.index(x, idx)
	}
	panic(fmt.Sprintf("unexpected x type in Lookup: %T", x))
}

func (in *Interp) sliceBound(v value, def int64, max int) int64 {
	if v == nil {
		return def
	}
	if s, ok := v.(*Sym); ok {
		t := in.to64(s)
		if !in.branch(in.ts.Bin(term.OpULe, t, in.ts.Const(64, uint64(max)))) {
			panic(targetPanic{v: in.runtimeError(fmt.Sprintf("slice bounds out of range [symbolic] with capacity %d", max))})
		}
		return int64(in.concretize(t))
	}
	return asInt64(v)
}

// slice returns x[lo:hi:max].  Any of lo, hi and max may be nil.
func (in *Interp) slice(instr *ssa.Slice, x, lo, hi, max value) value {
	var Len, Cap int
	switch x := x.(type) {
	case string:
		Len = len(x)
		Cap = Len
	case symString:
		Len = len(x.b)
		Cap = Len
	case []value:
		Len = len(x)
		Cap = cap(x)
	case *value: // *array
		if x == nil {
			in.nilDeref()
		}
		a := (*x).(array)
		Len = len(a)
		Cap = cap(a)
	}
	l := in.sliceBound(lo, 0, Cap)
	h := in.sliceBound(hi, int64(Len), Cap)
	m := in.sliceBound(max, int64(Cap), Cap)
	if l < 0 || h < l || m < h || m > int64(Cap) {
		panic(targetPanic{v: in.runtimeError(fmt.Sprintf("slice bounds out of range [%d:%d:%d] with capacity %d", l, h, m, Cap))})
	}
	switch x := x.(type) {
	case string:
		return x[l:h]
	case symString:
		return mkString(x.b[l:h])
	case []value:
		if x == nil {
			return x
		}
		return x[l:h:m]
	case *value: // *array
		a := (*x).(array)
		return []value(a)[l:h:m]
	}
	panic(fmt.Sprintf("slice: unexpected X type: %T", x))
}

func (in *Interp) typeAssert(instr *ssa.TypeAssert, itf iface) value {
	var v value
	err := ""
	if itf.t == nil {
		err = fmt.Sprintf("interface conversion: interface is nil, not %s", instr.AssertedType)
	} else if idst, ok := instr.AssertedType.Underlying().(*types.Interface); ok {
		v = itf
		err = checkInterface(idst, itf)
	} else if types.Identical(itf.t, instr.AssertedType) {
		v = itf.v // extract value
	} else {
		err = fmt.Sprintf("interface conversion: interface is %s, not %s", itf.t, instr.AssertedType)
	}
	if err != "" {
		if !instr.CommaOk {
			panic(targetPanic{v: in.runtimeError(err)})
		}
		return tuple{zero(instr.AssertedType), false}
	}
	if instr.CommaOk {
		return tuple{v, true}
	}
	return v
}

type sliceDataPtr struct{ s []value }
type stringDataPtr struct{ s value }

func (in *Interp) appendVals(elemT types.Type, s []value, elems []value) []value {
	if len(elems) == 0 {
		return s
	}
	n := len(s)
	if n+len(elems) <= cap(s) {
		s = s[:n+len(elems)]
		for i, e := range elems {
			in.set(&s[n+i], copyVal(elemT, e))
		}
		return s
	}
	newcap := 2 * cap(s)
	if newcap < n+len(elems) {
		newcap = n + len(elems)
	}
	if newcap < 4 {
		newcap = 4
	}
	ns := make([]value, n+len(elems), newcap)
	copy(ns, s)
	for i, e := range elems {
		ns[n+i] = copyVal(elemT, e)
	}
	rest := ns[len(ns):newcap]
	for i := range rest {
		rest[i] = zero(elemT)
	}
	return ns
}

func (in *Interp) callBuiltin(caller *frame, fn *ssa.Builtin, args []value) value {
	switch fn.Name() {
	case "append":
		if len(args) == 1 {
			return args[0]
		}
		elemT := fn.Type().(*types.Signature).Params().At(0).Type().Underlying().(*types.Slice).Elem()
		if isStr(args[1]) {
			return in.appendVals(elemT, args[0].([]value), strBytes(args[1]))
		}
		return in.appendVals(elemT, args[0].([]value), args[1].([]value))

	case "copy": // copy([]T, []T) int or copy([]byte, string) int
		dst := args[0].([]value)
		var src []value
		if isStr(args[1]) {
			src = strBytes(args[1])
		} else {
			src = append([]value(nil), args[1].([]value)...)
		}
		elemT := fn.Type().(*types.Signature).Params().At(0).Type().Underlying().(*types.Slice).Elem()
		n := len(dst)
		if len(src) < n {
			n = len(src)
		}
		for i := 0; i < n; i++ {
			in.set(&dst[i], copyVal(elemT, src[i]))
		}
		return n

	case "close":
		in.chanClose(caller, args[0].(*chanObj))
		return nil

	case "delete":
		m := args[0].(*omap)
		if m != nil {
			in.mapDelete(m, args[1])
		}
		return nil

	case "clear":
		switch x := args[0].(type) {
		case *omap:
			if x != nil {
				in.mapClear(x)
			}
		case []value:
			elemT := fn.Type().(*types.Signature).Params().At(0).Type().Underlying().(*types.Slice).Elem()
			for i := range x {
				in.set(&x[i], zero(elemT))
			}
		}
		return nil

	case "print", "println":
		return nil

	case "len":
		switch x := args[0].(type) {
		case string:
			return len(x)
		case symString:
			return len(x.b)
		case array:
			return len(x)
		case *value:
			return len((*x).(array))
		case []value:
			return len(x)
		case *omap:
			return x.len()
		case *chanObj:
			return x.length()
		default:
			panic(fmt.Sprintf("len: illegal operand: %T", x))
		}

	case "cap":
		switch x := args[0].(type) {
		case array:
			return cap(x)
		case *value:
			return cap((*x).(array))
		case []value:
			return cap(x)
		case *chanObj:
			return x.capacity()
		default:
			panic(fmt.Sprintf("cap: illegal operand: %T", x))
		}

	case "min", "max":
		acc := args[0]
		for _, a := range args[1:] {
			_, s1 := acc.(*Sym)
			_, s2 := a.(*Sym)
			if s1 || s2 {
				op := token.LSS
				if fn.Name() == "max" {
					op = token.GTR
				}
				c := in.symBinop(op, a, acc)
				acc = in.fromTerm(in.ts.Ite(in.toTerm(c), in.toTerm(a), in.toTerm(acc)), kindOf(acc))
			} else if fn.Name() == "min" {
				acc = min(acc, a)
			} else {
				acc = max(acc, a)
			}
		}
		return acc

	case "real":
		switch c := args[0].(type) {
		case complex64:
			return real(c)
		case complex128:
			return real(c)
		}
	case "imag":
		switch c := args[0].(type) {
		case complex64:
			return imag(c)
		case complex128:
			return imag(c)
		}
	case "complex":
		switch f := args[0].(type) {
		case float32:
			return complex(f, args[1].(float32))
		case float64:
			return complex(f, args[1].(float64))
		}

	case "panic":
		panic(targetPanic{v: args[0]})

	case "recover":
		return doRecover(caller)

	case "ssa:wrapnilchk":
		recv := args[0]
		if recv.(*value) == nil {
			in.nilDeref()
		}
		return recv

	case "ssa:deferstack":
		return &caller.defers

	// unsafe.* builtins
	case "SliceData":
		return sliceDataPtr{args[0].([]value)}
	case "StringData":
		return stringDataPtr{args[0]}
	case "String":
		n := asInt64(args[1])
		switch p := args[0].(type) {
		case sliceDataPtr:
			return mkString(p.s[:n])
		case stringDataPtr:
			return mkString(strBytes(p.s)[:n])
		case *value:
			if n == 0 {
				return ""
			}
		}
		unsupported("unsafe.String on %T", args[0])
	case "Slice":
		n := asInt64(args[1])
		switch p := args[0].(type) {
		case sliceDataPtr:
			return p.s[:n]
		case stringDataPtr:
			return append([]value(nil), strBytes(p.s)[:n]...)
		case *value:
			if n == 0 {
				return []value(nil)
			}
		}
		unsupported("unsafe.Slice on %T", args[0])
	}

	unsupported("unknown built-in: %s", fn.Name())
	return nil
}

type stringIter struct {
	s value
	i int
}

func (it *stringIter) next(in *Interp) tuple {
	n := strLen(it.s)
	if it.i >= n {
		return tuple{false, nil, nil}
	}
	switch s := it.s.(type) {
	case string:
		r, sz := utf8.DecodeRuneInString(s[it.i:])
		i := it.i
		it.i += sz
		return tuple{true, i, r}
	case symString:
		rest := mkString(s.b[it.i:])
		res := in.callNamed("unicode/utf8", "DecodeRuneInString", rest).(tuple)
		i := it.i
		it.i += int(asInt64(res[1]))
		return tuple{true, i, res[0]}
	}
	panic("stringIter")
}

func (in *Interp) rangeIter(fr *frame, x value) iter {
	switch x := x.(type) {
	case *omap:
		return in.newMapIter(x)
	case string, symString:
		return &stringIter{s: x}
	}
	panic(fmt.Sprintf("cannot range over %T", x))
}

// callNamed calls a package-level function of the program by name.
func (in *Interp) callNamed(pkgPath, name string, args ...value) value {
	pkg := in.prog.ImportedPackage(pkgPath)
	if pkg == nil {
		unsupported("package %s not loaded (needed for %s)", pkgPath, name)
	}
	fn := pkg.Func(name)
	if fn == nil {
		unsupported("function %s.%s not found", pkgPath, name)
	}
	return in.callSSA(nil, token.NoPos, fn, args, nil)
}

// conv converts x of type t_src to t_dst, symbolically where needed.
func (in *Interp) conv(fr *frame, t_dst, t_src types.Type, x value) value {
	ut_src := t_src.Underlying()
	ut_dst := t_dst.Underlying()
	switch x := x.(type) {
	case *Sym:
		kd, ok := basicKind(ut_dst)
		if !ok {
			unsupported("conversion of symbolic scalar to %s", t_dst)
		}
		if kd == types.String {
			// rune -> string
			r := in.fromTerm(in.convInt(x, types.Int32), types.Int32)
			if kindWidth(x.K) > 32 {
				// out-of-range values become U+FFFD, as AppendRune does for >MaxRune
				t := in.to64(x)
				inr := in.ts.Bin(term.OpULe, t, in.ts.Const(64, 0x10FFFF))
				if !in.branch(inr) {
					return "�"
				}
			}
			b := in.callNamed("unicode/utf8", "AppendRune", []value(nil), r).([]value)
			return mkString(b)
		}
		switch kd {
		case types.Float64:
			return symFloat{num: in.to64(x), div: 1}
		case types.Float32, types.Complex64, types.Complex128:
			unsupported("symbolic int -> float32/complex conversion")
		case types.UnsafePointer:
			unsupported("symbolic int -> unsafe.Pointer")
		}
		return in.fromTerm(in.convInt(x, kd), kd)
	case symFloat:
		kd, ok := basicKind(ut_dst)
		if !ok {
			unsupported("conversion of symbolic float to %s", t_dst)
		}
		switch kd {
		case types.Float64:
			return x
		case types.Int, types.Int64, types.Int32, types.Int16, types.Int8, types.Uint, types.Uint64, types.Uint32:
			q := x.num
			if x.div != 1 {
				q = in.ts.Bin(term.OpSDiv, x.num, in.ts.Const(64, uint64(x.div)))
			}
			s64 := &Sym{T: q, K: types.Int64}
			return in.fromTerm(in.convInt(s64, kd), kd)
		}
		unsupported("conversion of symbolic float to %s", t_dst)
	case symString:
		switch d := ut_dst.(type) {
		case *types.Basic:
			if d.Kind() == types.String {
				return x
			}
		case *types.Slice:
			switch d.Elem().Underlying().(*types.Basic).Kind() {
			case types.Byte:
				return append([]value(nil), x.b...)
			case types.Rune:
				var out []value
				it := &stringIter{s: x}
				for {
					t := it.next(in)
					if !t[0].(bool) {
						break
					}
					out = append(out, t[2])
				}
				return out
			}
		}
		unsupported("conversion of symbolic string to %s", t_dst)
	case []value:
		if sl, ok := ut_src.(*types.Slice); ok {
			if d, ok := ut_dst.(*types.Basic); ok && d.Kind() == types.String {
				switch sl.Elem().Underlying().(*types.Basic).Kind() {
				case types.Byte:
					return mkString(x)
				case types.Rune:
					var out []value
					for _, r := range x {
						if _, ok := r.(*Sym); ok {
							b := in.callNamed("unicode/utf8", "AppendRune", []value(nil), r).([]value)
							out = append(out, b...)
						} else {
							out = append(out, strBytes(string(r.(int32)))...)
						}
					}
					return mkString(out)
				}
			}
		}
	case *value:
		if d, ok := ut_dst.(*types.Basic); ok && d.Kind() == types.UnsafePointer {
			return unsafePtr{x}
		}
	case unsafePtr:
		if _, ok := ut_dst.(*types.Pointer); ok {
			if p, ok := x.p.(*value); ok {
				return p
			}
			return zero(t_dst)
		}
		if d, ok := ut_dst.(*types.Basic); ok {
			if d.Kind() == types.UnsafePointer {
				return x
			}
			if d.Kind() == types.Uintptr {
				if x.p == nil {
					return uintptr(0)
				}
				return uintptr(1) // opaque non-nil
			}
		}
	case sliceDataPtr, stringDataPtr:
		return x
	case uintptr:
		if d, ok := ut_dst.(*types.Basic); ok && d.Kind() == types.UnsafePointer {
			return unsafePtr{}
		}
	}
	if _, ok := ut_src.(*types.Pointer); ok {
		if _, ok := ut_dst.(*types.Pointer); ok {
			return x
		}
	}
	return convConcrete(t_dst, t_src, x)
}

// convInt converts a symbolic integer term to the width of kind kd.
func (in *Interp) convInt(x *Sym, kd types.BasicKind) *term.Term {
	if x.K == types.Bool {
		unsupported("conversion from symbolic bool")
	}
	wd := kindWidth(kd)
	ws := kindWidth(x.K)
	switch {
	case wd == ws:
		return x.T
	case wd < ws:
		return in.ts.Extract(x.T, wd-1, 0)
	case kindSigned(x.K):
		return in.ts.SExt(x.T, wd)
	default:
		return in.ts.ZExt(x.T, wd)
	}
}
