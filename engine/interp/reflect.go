package interp

import (
	"fmt"
	"go/token"
	"go/types"
	"reflect"

	"golang.org/x/tools/go/ssa"
)

// A small native model of reflect / internal/reflectlite. reflect.Type values
// are iface{t: fakeRtype, v: rtype{T}}; reflect.Value is its real 3-field
// struct shape holding {rtype{T}, boxed value, flag}, only ever touched by the
// intrinsics below.

var fakeRtype = types.NewNamed(types.NewTypeName(token.NoPos, nil, "verif.rtype", nil), types.Typ[types.Int], nil)

func mkType(t types.Type) value { return iface{t: fakeRtype, v: rtype{t}} }

func (in *Interp) nativeMethod(t types.Type, m *types.Func) *nativeFn {
	if t != fakeRtype {
		return nil
	}
	name := m.Name()
	return &nativeFn{name: "rtype." + name, fn: func(fr *frame, args []value) value {
		rt := args[0].(rtype).t
		switch name {
		case "Elem":
			switch u := rt.Underlying().(type) {
			case *types.Pointer:
				return mkType(u.Elem())
			case *types.Slice:
				return mkType(u.Elem())
			case *types.Array:
				return mkType(u.Elem())
			case *types.Map:
				return mkType(u.Elem())
			case *types.Chan:
				return mkType(u.Elem())
			}
			panic(targetPanic{v: fr.i.runtimeError("reflect: Elem of invalid type " + rt.String())})
		case "Key":
			return mkType(rt.Underlying().(*types.Map).Key())
		case "Kind":
			return uint(reflectKind(rt))
		case "String":
			return typeString(rt)
		case "Name":
			if n, ok := types.Unalias(rt).(*types.Named); ok {
				return n.Obj().Name()
			}
			if b, ok := rt.(*types.Basic); ok {
				return b.Name()
			}
			return ""
		case "PkgPath":
			if n, ok := types.Unalias(rt).(*types.Named); ok && n.Obj().Pkg() != nil {
				return n.Obj().Pkg().Path()
			}
			return ""
		case "Comparable":
			return types.Comparable(rt)
		case "NumMethod":
			return fr.i.prog.MethodSets.MethodSet(rt).Len()
		case "NumField":
			return rt.Underlying().(*types.Struct).NumFields()
		case "Len":
			return int(rt.Underlying().(*types.Array).Len())
		case "Size":
			return uintptr(fr.i.sizes.Sizeof(rt))
		case "Bits":
			return int(fr.i.sizes.Sizeof(rt)) * 8
		case "Implements":
			u := args[1].(iface).v.(rtype).t
			return types.Implements(rt, u.Underlying().(*types.Interface))
		case "AssignableTo":
			return types.AssignableTo(rt, args[1].(iface).v.(rtype).t)
		case "ConvertibleTo":
			return types.ConvertibleTo(rt, args[1].(iface).v.(rtype).t)
		}
		unsupported("reflect.Type.%s", name)
		return nil
	}}
}

func reflectKind(t types.Type) reflect.Kind {
	switch t := t.Underlying().(type) {
	case *types.Basic:
		switch t.Kind() {
		case types.Bool:
			return reflect.Bool
		case types.Int:
			return reflect.Int
		case types.Int8:
			return reflect.Int8
		case types.Int16:
			return reflect.Int16
		case types.Int32:
			return reflect.Int32
		case types.Int64:
			return reflect.Int64
		case types.Uint:
			return reflect.Uint
		case types.Uint8:
			return reflect.Uint8
		case types.Uint16:
			return reflect.Uint16
		case types.Uint32:
			return reflect.Uint32
		case types.Uint64:
			return reflect.Uint64
		case types.Uintptr:
			return reflect.Uintptr
		case types.Float32:
			return reflect.Float32
		case types.Float64:
			return reflect.Float64
		case types.Complex64:
			return reflect.Complex64
		case types.Complex128:
			return reflect.Complex128
		case types.String:
			return reflect.String
		case types.UnsafePointer:
			return reflect.UnsafePointer
		}
	case *types.Array:
		return reflect.Array
	case *types.Chan:
		return reflect.Chan
	case *types.Signature:
		return reflect.Func
	case *types.Interface:
		return reflect.Interface
	case *types.Map:
		return reflect.Map
	case *types.Pointer:
		return reflect.Pointer
	case *types.Slice:
		return reflect.Slice
	case *types.Struct:
		return reflect.Struct
	}
	panic(engineError{fmt.Sprint("reflectKind: unexpected type: ", t)})
}

func mkRV(t types.Type, v value) value {
	if t == nil {
		return structure{rtype{nil}, nil, uintptr(0)}
	}
	return structure{rtype{t}, v, uintptr(1)}
}

func rvT(v value) types.Type { return v.(structure)[0].(rtype).t }
func rvV(v value) value      { return v.(structure)[1] }

func typeOfIntr(fr *frame, args []value) value {
	it := args[0].(iface)
	if it.t == nil {
		return iface{}
	}
	return mkType(it.t)
}

func rvIsNil(v value) bool {
	switch x := rvV(v).(type) {
	case *value:
		return x == nil
	case *omap:
		return x == nil
	case []value:
		return x == nil
	case *chanObj:
		return x == nil
	case *ssa.Function:
		return x == nil
	case *closure:
		return x == nil
	case iface:
		return x.t == nil
	case unsafePtr:
		return x.p == nil
	}
	panic(targetPanic{v: iface{t: types.Typ[types.String], v: "reflect: call of reflect.Value.IsNil on non-nillable Value"}})
}

func init() {
	r := map[string]intrinsic{
		"internal/reflectlite.TypeOf": typeOfIntr,
		"reflect.TypeOf":              typeOfIntr,
		"reflect.ValueOf": func(fr *frame, args []value) value {
			it := args[0].(iface)
			return mkRV(it.t, it.v)
		},
		"internal/reflectlite.ValueOf": func(fr *frame, args []value) value {
			it := args[0].(iface)
			return mkRV(it.t, it.v)
		},
		"(reflect.Value).IsValid": func(fr *frame, a []value) value { return rvT(a[0]) != nil },
		"(reflect.Value).Kind": func(fr *frame, a []value) value {
			if rvT(a[0]) == nil {
				return uint(0)
			}
			return uint(reflectKind(rvT(a[0])))
		},
		"(reflect.Value).Type":         func(fr *frame, a []value) value { return mkType(rvT(a[0])) },
		"(reflect.Value).IsNil":        func(fr *frame, a []value) value { return rvIsNil(a[0]) },
		"(reflect.Value).CanInterface": constFn(true),
		"(reflect.Value).Interface":    func(fr *frame, a []value) value { return rvIface(a[0]) },
		"(reflect.Value).String": func(fr *frame, a []value) value {
			if s, ok := rvV(a[0]).(string); ok {
				return s
			}
			if s, ok := rvV(a[0]).(symString); ok {
				return s
			}
			return "<" + typeString(rvT(a[0])) + " Value>"
		},
		"(reflect.Value).Int":   func(fr *frame, a []value) value { return fr.i.convTo(rvV(a[0]), types.Int64) },
		"(reflect.Value).Uint":  func(fr *frame, a []value) value { return fr.i.convTo(rvV(a[0]), types.Uint64) },
		"(reflect.Value).Bool":  func(fr *frame, a []value) value { return rvV(a[0]) },
		"(reflect.Value).Float": func(fr *frame, a []value) value { return widen(rvV(a[0])) },
		"(reflect.Value).Len": func(fr *frame, a []value) value {
			switch v := rvV(a[0]).(type) {
			case string:
				return len(v)
			case symString:
				return len(v.b)
			case []value:
				return len(v)
			case array:
				return len(v)
			case *omap:
				return v.len()
			case *chanObj:
				return v.length()
			}
			unsupported("reflect.Value.Len on %T", rvV(a[0]))
			return nil
		},
		"(reflect.Value).Index": func(fr *frame, a []value) value {
			i := asInt64(a[1])
			t := rvT(a[0])
			switch v := rvV(a[0]).(type) {
			case []value:
				return mkRV(t.Underlying().(*types.Slice).Elem(), v[i])
			case array:
				return mkRV(t.Underlying().(*types.Array).Elem(), v[i])
			}
			unsupported("reflect.Value.Index on %T", rvV(a[0]))
			return nil
		},
		"(reflect.Value).Elem": func(fr *frame, a []value) value {
			switch v := rvV(a[0]).(type) {
			case iface:
				return mkRV(v.t, v.v)
			case *value:
				if v == nil {
					return mkRV(nil, nil)
				}
				et := deref(rvT(a[0]))
				return mkRV(et, load(et, v))
			}
			unsupported("reflect.Value.Elem on %T", rvV(a[0]))
			return nil
		},
		"(reflect.Value).NumField": func(fr *frame, a []value) value { return len(rvV(a[0]).(structure)) },
		"(reflect.Value).Field": func(fr *frame, a []value) value {
			i := int(asInt64(a[1]))
			st := rvT(a[0]).Underlying().(*types.Struct)
			return mkRV(st.Field(i).Type(), rvV(a[0]).(structure)[i])
		},
		"(reflect.Value).IsZero": func(fr *frame, a []value) value {
			t := rvT(a[0])
			return fr.i.truth(fr.i.equalsAny(t, rvV(a[0]), zero(t)))
		},
		"(reflect.Value).Pointer": func(fr *frame, a []value) value {
			if rvIsNil(a[0]) {
				return uintptr(0)
			}
			return uintptr(0xc000010000)
		},
		"(reflect.Value).MapKeys": func(fr *frame, a []value) value {
			m := rvV(a[0]).(*omap)
			kt := rvT(a[0]).Underlying().(*types.Map).Key()
			var out []value
			if m != nil {
				for _, e := range m.entries {
					if !e.dead {
						out = append(out, mkRV(kt, e.key))
					}
				}
			}
			return out
		},
		"(reflect.Value).MapIndex": func(fr *frame, a []value) value {
			m := rvV(a[0]).(*omap)
			et := rvT(a[0]).Underlying().(*types.Map).Elem()
			if e := fr.i.mapFind(m, rvV(a[1])); e != nil {
				return mkRV(et, e.val)
			}
			return mkRV(nil, nil)
		},
		"reflect.DeepEqual": func(fr *frame, a []value) value {
			x, y := a[0].(iface), a[1].(iface)
			if !sameType(x.t, y.t) {
				return false
			}
			if x.t == nil {
				return true
			}
			return fr.i.truth(fr.i.deepEqual(x.t, x.v, y.v, 0))
		},
	}
	for k, v := range r {
		intrinsics[k] = v
	}
}

func rvIface(v value) value {
	t := rvT(v)
	if t == nil {
		return iface{}
	}
	if _, ok := t.Underlying().(*types.Interface); ok {
		if it, ok := rvV(v).(iface); ok {
			return it
		}
	}
	return iface{t: t, v: rvV(v)}
}

// convTo converts an integer value (concrete or symbolic) to kind k.
func (in *Interp) convTo(v value, k types.BasicKind) value {
	if s, ok := v.(*Sym); ok {
		return in.fromTerm(in.convInt(s, k), k)
	}
	if kindSignedVal(v) || !kindSigned(k) {
		if k == types.Int64 {
			return asInt64(v)
		}
		return uint64(asInt64(v))
	}
	return asInt64(v)
}

// equalsAny compares values including uncomparable kinds shallowly (nil-ness).
func (in *Interp) equalsAny(t types.Type, x, y value) value {
	switch t.Underlying().(type) {
	case *types.Map, *types.Slice, *types.Signature:
		return isNilRef(x) == isNilRef(y) && isNilRef(x)
	}
	return in.equals(t, x, y)
}

func (in *Interp) deepEqual(t types.Type, x, y value, depth int) value {
	if depth > 20 {
		unsupported("reflect.DeepEqual: too deep")
	}
	switch u := t.Underlying().(type) {
	case *types.Slice:
		xs, ys := x.([]value), y.([]value)
		if (xs == nil) != (ys == nil) || len(xs) != len(ys) {
			return false
		}
		var acc value = true
		for i := range xs {
			acc = in.and(acc, in.deepEqual(u.Elem(), xs[i], ys[i], depth+1))
			if acc == false {
				return false
			}
		}
		return acc
	case *types.Array:
		xs, ys := x.(array), y.(array)
		var acc value = true
		for i := range xs {
			acc = in.and(acc, in.deepEqual(u.Elem(), xs[i], ys[i], depth+1))
		}
		return acc
	case *types.Struct:
		xs, ys := x.(structure), y.(structure)
		var acc value = true
		for i := range xs {
			acc = in.and(acc, in.deepEqual(u.Field(i).Type(), xs[i], ys[i], depth+1))
		}
		return acc
	case *types.Pointer:
		xp, yp := x.(*value), y.(*value)
		if xp == yp {
			return true
		}
		if xp == nil || yp == nil {
			return false
		}
		return in.deepEqual(u.Elem(), *xp, *yp, depth+1)
	case *types.Interface:
		xi, yi := x.(iface), y.(iface)
		if !sameType(xi.t, yi.t) {
			return false
		}
		if xi.t == nil {
			return true
		}
		return in.deepEqual(xi.t, xi.v, yi.v, depth+1)
	case *types.Map:
		xm, ym := x.(*omap), y.(*omap)
		if (xm == nil) != (ym == nil) || xm.len() != ym.len() {
			return false
		}
		var acc value = true
		if xm != nil {
			for _, e := range xm.entries {
				if e.dead {
					continue
				}
				o := in.mapFind(ym, e.key)
				if o == nil {
					return false
				}
				acc = in.and(acc, in.deepEqual(u.Elem(), e.val, o.val, depth+1))
			}
		}
		return acc
	case *types.Signature:
		return isNilRef(x) && isNilRef(y)
	}
	return in.equals(t, x, y)
}
