// Package term implements a hash-consed DAG of SMT terms over Bool and
// fixed-width bit-vectors, with a local simplifier, an evaluator under a
// model, and an SMT-LIB2 printer.
package term

import (
	"fmt"
	"math/bits"
	"strings"
)

type Op uint8

const (
	OpConst Op = iota
	OpVar
	OpNot
	OpAnd
	OpOr
	OpIte
	OpEq
	OpAdd
	OpSub
	OpMul
	OpUDiv
	OpURem
	OpSDiv
	OpSRem
	OpBAnd
	OpBOr
	OpBXor
	OpBNot
	OpNeg
	OpShl
	OpLShr
	OpAShr
	OpULt
	OpULe
	OpSLt
	OpSLe
	OpConcat
	OpExtract
	OpZExt
	OpSExt
)

var opNames = [...]string{"const", "var", "not", "and", "or", "ite", "=", "bvadd", "bvsub", "bvmul", "bvudiv", "bvurem", "bvsdiv", "bvsrem", "bvand", "bvor", "bvxor", "bvnot", "bvneg", "bvshl", "bvlshr", "bvashr", "bvult", "bvule", "bvslt", "bvsle", "concat", "extract", "zero_extend", "sign_extend"}

// Term is an immutable node. W == 0 means sort Bool, otherwise (_ BitVec W).
type Term struct {
	Op   Op
	W    uint8
	ID   uint32
	Val  uint64 // constant value (masked); for Bool 0/1
	Hi   uint8  // extract hi / extension amount
	Lo   uint8
	Name string
	Args []*Term
	SV   *Term // the only variable occurring in the term, when there is exactly one
	MV   bool  // more than one variable occurs
}

type key struct {
	op         Op
	w, hi, lo  uint8
	val        uint64
	name       string
	a0, a1, a2 uint32
}

// Store interns terms. Not safe for concurrent use; one per worker.
type Store struct {
	tab   map[key]*Term
	nary  map[string]*Term
	next  uint32
	True  *Term
	False *Term
}

func NewStore() *Store {
	s := &Store{tab: map[key]*Term{}, nary: map[string]*Term{}, next: 1}
	s.False = s.Const(0, 0)
	s.True = s.Const(0, 1)
	return s
}

func mask(w uint8) uint64 {
	if w == 0 {
		return 1
	}
	if w >= 64 {
		return ^uint64(0)
	}
	return (uint64(1) << w) - 1
}

func (s *Store) mk(op Op, w uint8, val uint64, hi, lo uint8, name string, args ...*Term) *Term {
	k := key{op: op, w: w, hi: hi, lo: lo, val: val, name: name}
	switch len(args) {
	case 3:
		k.a2 = args[2].ID
		fallthrough
	case 2:
		k.a1 = args[1].ID
		fallthrough
	case 1:
		k.a0 = args[0].ID
	case 0:
	default:
		var sb strings.Builder
		fmt.Fprintf(&sb, "%d:%d", op, w)
		for _, a := range args {
			fmt.Fprintf(&sb, ",%d", a.ID)
		}
		ks := sb.String()
		if t, ok := s.nary[ks]; ok {
			return t
		}
		t := &Term{Op: op, W: w, ID: s.next, Val: val, Hi: hi, Lo: lo, Name: name, Args: append([]*Term(nil), args...)}
		t.setVars()
		s.next++
		s.nary[ks] = t
		return t
	}
	if t, ok := s.tab[k]; ok {
		return t
	}
	t := &Term{Op: op, W: w, ID: s.next, Val: val, Hi: hi, Lo: lo, Name: name, Args: append([]*Term(nil), args...)}
	t.setVars()
	s.next++
	s.tab[k] = t
	return t
}

func (t *Term) setVars() {
	if t.Op == OpVar {
		t.SV = t
		return
	}
	for _, a := range t.Args {
		if a.MV {
			t.MV, t.SV = true, nil
			return
		}
		if a.SV != nil {
			if t.SV == nil {
				t.SV = a.SV
			} else if t.SV != a.SV {
				t.MV, t.SV = true, nil
				return
			}
		}
	}
}

func (s *Store) Const(w uint8, v uint64) *Term { return s.mk(OpConst, w, v&mask(w), 0, 0, "") }
func (s *Store) Bool(b bool) *Term {
	if b {
		return s.True
	}
	return s.False
}
func (s *Store) Var(name string, w uint8) *Term { return s.mk(OpVar, w, 0, 0, 0, name) }

func (t *Term) IsConst() bool { return t.Op == OpConst }
func (t *Term) IsTrue() bool  { return t.Op == OpConst && t.W == 0 && t.Val == 1 }
func (t *Term) IsFalse() bool { return t.Op == OpConst && t.W == 0 && t.Val == 0 }

func sext64(v uint64, w uint8) int64 {
	if w >= 64 {
		return int64(v)
	}
	sh := 64 - uint(w)
	return int64(v<<sh) >> sh
}

// evalOp computes op on constant argument values.
func evalOp(op Op, w uint8, hi, lo uint8, aw uint8, a []uint64) uint64 {
	m := mask(w)
	switch op {
	case OpNot:
		return a[0] ^ 1
	case OpAnd:
		r := uint64(1)
		for _, x := range a {
			r &= x
		}
		return r
	case OpOr:
		r := uint64(0)
		for _, x := range a {
			r |= x
		}
		return r
	case OpIte:
		if a[0] != 0 {
			return a[1]
		}
		return a[2]
	case OpEq:
		if a[0] == a[1] {
			return 1
		}
		return 0
	case OpAdd:
		return (a[0] + a[1]) & m
	case OpSub:
		return (a[0] - a[1]) & m
	case OpMul:
		return (a[0] * a[1]) & m
	case OpUDiv:
		if a[1] == 0 {
			return m
		}
		return a[0] / a[1]
	case OpURem:
		if a[1] == 0 {
			return a[0]
		}
		return a[0] % a[1]
	case OpSDiv:
		x, y := sext64(a[0], w), sext64(a[1], w)
		if y == 0 {
			if x < 0 {
				return 1
			}
			return m
		}
		if y == -1 {
			return uint64(-x) & m
		}
		return uint64(x/y) & m
	case OpSRem:
		x, y := sext64(a[0], w), sext64(a[1], w)
		if y == 0 {
			return a[0]
		}
		if y == -1 {
			return 0
		}
		return uint64(x%y) & m
	case OpBAnd:
		return a[0] & a[1]
	case OpBOr:
		return a[0] | a[1]
	case OpBXor:
		return a[0] ^ a[1]
	case OpBNot:
		return ^a[0] & m
	case OpNeg:
		return (-a[0]) & m
	case OpShl:
		if a[1] >= uint64(w) {
			return 0
		}
		return (a[0] << a[1]) & m
	case OpLShr:
		if a[1] >= uint64(w) {
			return 0
		}
		return a[0] >> a[1]
	case OpAShr:
		x := sext64(a[0], w)
		sh := a[1]
		if sh >= uint64(w) {
			sh = uint64(w) - 1
		}
		return uint64(x>>sh) & m
	case OpULt:
		return b2u(a[0] < a[1])
	case OpULe:
		return b2u(a[0] <= a[1])
	case OpSLt:
		return b2u(sext64(a[0], aw) < sext64(a[1], aw))
	case OpSLe:
		return b2u(sext64(a[0], aw) <= sext64(a[1], aw))
	case OpConcat:
		// a[0] is high part; lo holds width of a[1]
		return ((a[0] << lo) | a[1]) & m
	case OpExtract:
		return (a[0] >> lo) & m
	case OpZExt:
		return a[0]
	case OpSExt:
		return uint64(sext64(a[0], aw)) & m
	}
	panic("evalOp: bad op")
}

func b2u(b bool) uint64 {
	if b {
		return 1
	}
	return 0
}

func allConst(args []*Term) bool {
	for _, a := range args {
		if a.Op != OpConst {
			return false
		}
	}
	return true
}

func (s *Store) fold(op Op, w, hi, lo uint8, args ...*Term) *Term {
	vals := make([]uint64, len(args))
	for i, a := range args {
		vals[i] = a.Val
	}
	return s.Const(w, evalOp(op, w, hi, lo, args[0].W, vals))
}

func (s *Store) Not(a *Term) *Term {
	if a.Op == OpConst {
		return s.Bool(a.Val == 0)
	}
	if a.Op == OpNot {
		return a.Args[0]
	}
	return s.mk(OpNot, 0, 0, 0, 0, "", a)
}

func containsID(ts []*Term, id uint32) bool {
	for _, t := range ts {
		if t.ID == id {
			return true
		}
	}
	return false
}

// nary builds a flattened, de-duplicated conjunction (and=true) or disjunction.
func (s *Store) naryBool(and bool, args []*Term) *Term {
	op := OpOr
	if and {
		op = OpAnd
	}
	var buf [8]*Term
	out := buf[:0]
	for _, a := range args {
		if a.Op == OpConst {
			if (a.Val == 0) == and {
				return s.Bool(!and) // absorbing element
			}
			continue // neutral element
		}
		if a.Op == op {
			for _, b := range a.Args {
				if !containsID(out, b.ID) {
					out = append(out, b)
				}
			}
			continue
		}
		if !containsID(out, a.ID) {
			out = append(out, a)
		}
	}
	if len(out) <= 64 {
		for _, a := range out {
			if a.Op == OpNot && containsID(out, a.Args[0].ID) {
				return s.Bool(!and)
			}
		}
	}
	switch len(out) {
	case 0:
		return s.Bool(and)
	case 1:
		return out[0]
	}
	return s.mk(op, 0, 0, 0, 0, "", out...)
}

func (s *Store) And(args ...*Term) *Term { return s.naryBool(true, args) }
func (s *Store) Or(args ...*Term) *Term  { return s.naryBool(false, args) }

func (s *Store) Implies(a, b *Term) *Term { return s.Or(s.Not(a), b) }

func (s *Store) Ite(c, a, b *Term) *Term {
	if c.Op == OpConst {
		if c.Val != 0 {
			return a
		}
		return b
	}
	if a == b {
		return a
	}
	if a.W != b.W {
		panic(fmt.Sprintf("ite: width mismatch %d vs %d", a.W, b.W))
	}
	if a.W == 0 {
		if a.IsTrue() && b.IsFalse() {
			return c
		}
		if a.IsFalse() && b.IsTrue() {
			return s.Not(c)
		}
		if a.IsTrue() {
			return s.Or(c, b)
		}
		if a.IsFalse() {
			return s.And(s.Not(c), b)
		}
		if b.IsTrue() {
			return s.Or(s.Not(c), a)
		}
		if b.IsFalse() {
			return s.And(c, a)
		}
	}
	if c.Op == OpNot {
		return s.Ite(c.Args[0], b, a)
	}
	// ite(c, x, ite(c, y, z)) = ite(c, x, z)
	if b.Op == OpIte && b.Args[0] == c {
		return s.Ite(c, a, b.Args[2])
	}
	if a.Op == OpIte && a.Args[0] == c {
		return s.Ite(c, a.Args[1], b)
	}
	return s.mk(OpIte, a.W, 0, 0, 0, "", c, a, b)
}

func (s *Store) Eq(a, b *Term) *Term {
	if a == b {
		return s.True
	}
	if a.W != b.W {
		panic(fmt.Sprintf("eq: width mismatch %d vs %d (%s, %s)", a.W, b.W, a, b))
	}
	if a.Op == OpConst && b.Op == OpConst {
		return s.Bool(a.Val == b.Val)
	}
	if a.Op == OpConst {
		a, b = b, a
	}
	if b.Op == OpConst {
		if a.W == 0 {
			if b.Val != 0 {
				return a
			}
			return s.Not(a)
		}
		// eq(ite(c, x, y), k): push inside when an arm is constant
		if a.Op == OpIte && (a.Args[1].Op == OpConst || a.Args[2].Op == OpConst) {
			return s.Ite(a.Args[0], s.Eq(a.Args[1], b), s.Eq(a.Args[2], b))
		}
		// eq(zext(x), k)
		if a.Op == OpZExt {
			x := a.Args[0]
			if b.Val > mask(x.W) {
				return s.False
			}
			return s.Eq(x, s.Const(x.W, b.Val))
		}
	}
	if a.ID > b.ID {
		a, b = b, a
	}
	return s.mk(OpEq, 0, 0, 0, 0, "", a, b)
}

func (s *Store) Bin(op Op, a, b *Term) *Term {
	if a.W != b.W {
		panic(fmt.Sprintf("%s: width mismatch %d vs %d", opNames[op], a.W, b.W))
	}
	w := a.W
	switch op {
	case OpULt, OpULe, OpSLt, OpSLe:
		w = 0
	}
	if a.Op == OpConst && b.Op == OpConst {
		return s.fold(op, w, 0, 0, a, b)
	}
	switch op {
	case OpAdd:
		if a.Op == OpConst && a.Val == 0 {
			return b
		}
		if b.Op == OpConst && b.Val == 0 {
			return a
		}
	case OpSub:
		if b.Op == OpConst && b.Val == 0 {
			return a
		}
		if a == b {
			return s.Const(w, 0)
		}
	case OpMul:
		if a.Op == OpConst && a.Val == 1 {
			return b
		}
		if b.Op == OpConst && b.Val == 1 {
			return a
		}
		if (a.Op == OpConst && a.Val == 0) || (b.Op == OpConst && b.Val == 0) {
			return s.Const(w, 0)
		}
	case OpBAnd:
		if a == b {
			return a
		}
		if (a.Op == OpConst && a.Val == 0) || (b.Op == OpConst && b.Val == 0) {
			return s.Const(w, 0)
		}
		if a.Op == OpConst && a.Val == mask(w) {
			return b
		}
		if b.Op == OpConst && b.Val == mask(w) {
			return a
		}
	case OpBOr:
		if a == b {
			return a
		}
		if a.Op == OpConst && a.Val == 0 {
			return b
		}
		if b.Op == OpConst && b.Val == 0 {
			return a
		}
	case OpBXor:
		if a == b {
			return s.Const(w, 0)
		}
		if a.Op == OpConst && a.Val == 0 {
			return b
		}
		if b.Op == OpConst && b.Val == 0 {
			return a
		}
	case OpShl, OpLShr, OpAShr:
		if b.Op == OpConst && b.Val == 0 {
			return a
		}
	case OpULt:
		if a == b {
			return s.False
		}
		if b.Op == OpConst && b.Val == 0 {
			return s.False
		}
		if a.Op == OpZExt && b.Op == OpConst && b.Val > mask(a.Args[0].W) {
			return s.True
		}
	case OpULe:
		if a == b {
			return s.True
		}
		if a.Op == OpConst && a.Val == 0 {
			return s.True
		}
		if a.Op == OpZExt && b.Op == OpConst && b.Val >= mask(a.Args[0].W) {
			return s.True
		}
	case OpSLt:
		if a == b {
			return s.False
		}
	case OpSLe:
		if a == b {
			return s.True
		}
	}
	// commutative normalisation
	switch op {
	case OpAdd, OpMul, OpBAnd, OpBOr, OpBXor:
		if a.ID > b.ID {
			a, b = b, a
		}
	}
	return s.mk(op, w, 0, 0, 0, "", a, b)
}

func (s *Store) Un(op Op, a *Term) *Term {
	if a.Op == OpConst {
		return s.fold(op, a.W, 0, 0, a)
	}
	if a.Op == op && (op == OpBNot || op == OpNeg) {
		return a.Args[0]
	}
	return s.mk(op, a.W, 0, 0, 0, "", a)
}

func (s *Store) Extract(a *Term, hi, lo uint8) *Term {
	w := hi - lo + 1
	if lo == 0 && w == a.W {
		return a
	}
	if a.Op == OpConst {
		return s.Const(w, a.Val>>lo)
	}
	if (a.Op == OpZExt || a.Op == OpSExt) && hi < a.Args[0].W {
		return s.Extract(a.Args[0], hi, lo)
	}
	if a.Op == OpZExt && lo >= a.Args[0].W {
		return s.Const(w, 0)
	}
	if a.Op == OpConcat {
		lw := a.Args[1].W
		if hi < lw {
			return s.Extract(a.Args[1], hi, lo)
		}
		if lo >= lw {
			return s.Extract(a.Args[0], hi-lw, lo-lw)
		}
	}
	if a.Op == OpExtract {
		return s.Extract(a.Args[0], hi+a.Lo, lo+a.Lo)
	}
	if a.Op == OpIte && (a.Args[1].Op == OpConst || a.Args[2].Op == OpConst) {
		return s.Ite(a.Args[0], s.Extract(a.Args[1], hi, lo), s.Extract(a.Args[2], hi, lo))
	}
	return s.mk(OpExtract, w, 0, hi, lo, "", a)
}

func (s *Store) ZExt(a *Term, w uint8) *Term {
	if w == a.W {
		return a
	}
	if w < a.W {
		return s.Extract(a, w-1, 0)
	}
	if a.Op == OpConst {
		return s.Const(w, a.Val)
	}
	if a.Op == OpZExt {
		return s.ZExt(a.Args[0], w)
	}
	if a.Op == OpIte && (a.Args[1].Op == OpConst || a.Args[2].Op == OpConst) {
		return s.Ite(a.Args[0], s.ZExt(a.Args[1], w), s.ZExt(a.Args[2], w))
	}
	return s.mk(OpZExt, w, 0, w-a.W, 0, "", a)
}

func (s *Store) SExt(a *Term, w uint8) *Term {
	if w == a.W {
		return a
	}
	if w < a.W {
		return s.Extract(a, w-1, 0)
	}
	if a.Op == OpConst {
		return s.Const(w, uint64(sext64(a.Val, a.W)))
	}
	if a.Op == OpZExt {
		return s.ZExt(a.Args[0], w)
	}
	if a.Op == OpIte && (a.Args[1].Op == OpConst || a.Args[2].Op == OpConst) {
		return s.Ite(a.Args[0], s.SExt(a.Args[1], w), s.SExt(a.Args[2], w))
	}
	return s.mk(OpSExt, w, 0, w-a.W, 0, "", a)
}

func (s *Store) Concat(hi, lo *Term) *Term {
	w := hi.W + lo.W
	if hi.Op == OpConst && lo.Op == OpConst {
		return s.Const(w, hi.Val<<lo.W|lo.Val)
	}
	if hi.Op == OpConst && hi.Val == 0 {
		return s.ZExt(lo, w)
	}
	return s.mk(OpConcat, w, 0, 0, lo.W, "", hi, lo)
}

// BoolToBV converts a Bool term to a 1/0 bit-vector of width w.
func (s *Store) BoolToBV(b *Term, w uint8) *Term {
	return s.Ite(b, s.Const(w, 1), s.Const(w, 0))
}

// Eval evaluates t under model m (missing variables are 0).
func Eval(t *Term, m map[string]uint64, memo map[uint32]uint64) uint64 {
	if t.Op == OpConst {
		return t.Val
	}
	if v, ok := memo[t.ID]; ok {
		return v
	}
	var r uint64
	switch t.Op {
	case OpVar:
		r = m[t.Name] & mask(t.W)
	case OpIte:
		if Eval(t.Args[0], m, memo) != 0 {
			r = Eval(t.Args[1], m, memo)
		} else {
			r = Eval(t.Args[2], m, memo)
		}
	case OpAnd:
		r = 1
		for _, a := range t.Args {
			if Eval(a, m, memo) == 0 {
				r = 0
				break
			}
		}
	case OpOr:
		r = 0
		for _, a := range t.Args {
			if Eval(a, m, memo) != 0 {
				r = 1
				break
			}
		}
	default:
		var buf [3]uint64
		vals := buf[:len(t.Args)]
		for i, a := range t.Args {
			vals[i] = Eval(a, m, memo)
		}
		r = evalOp(t.Op, t.W, t.Hi, t.Lo, t.Args[0].W, vals)
	}
	memo[t.ID] = r
	return r
}

// Size is the number of terms interned so far.
func (s *Store) Size() int { return int(s.next) }

// Subst replaces variables by terms (sub maps variable name -> replacement),
// re-simplifying on the way up.
func (s *Store) Subst(t *Term, sub map[string]*Term, memo map[uint32]*Term) *Term {
	if t.Op == OpConst {
		return t
	}
	if t.SV == nil && !t.MV {
		return t
	}
	if r, ok := memo[t.ID]; ok {
		return r
	}
	var r *Term
	if t.Op == OpVar {
		if x, ok := sub[t.Name]; ok {
			r = x
		} else {
			r = t
		}
		memo[t.ID] = r
		return r
	}
	args := make([]*Term, len(t.Args))
	changed := false
	for i, a := range t.Args {
		args[i] = s.Subst(a, sub, memo)
		if args[i] != a {
			changed = true
		}
	}
	if !changed {
		memo[t.ID] = t
		return t
	}
	switch t.Op {
	case OpNot:
		r = s.Not(args[0])
	case OpAnd:
		r = s.And(args...)
	case OpOr:
		r = s.Or(args...)
	case OpIte:
		r = s.Ite(args[0], args[1], args[2])
	case OpEq:
		r = s.Eq(args[0], args[1])
	case OpBNot, OpNeg:
		r = s.Un(t.Op, args[0])
	case OpExtract:
		r = s.Extract(args[0], t.Hi, t.Lo)
	case OpZExt:
		r = s.ZExt(args[0], t.W)
	case OpSExt:
		r = s.SExt(args[0], t.W)
	case OpConcat:
		r = s.Concat(args[0], args[1])
	default:
		r = s.Bin(t.Op, args[0], args[1])
	}
	memo[t.ID] = r
	return r
}

// Evaluator evaluates terms of one Store with an allocation-free memo
// (generation-stamped slices indexed by term ID).
type Evaluator struct {
	vals []uint64
	gens []uint32
	gen  uint32
}

// NewGen invalidates the memo (call when the model changes).
func (e *Evaluator) NewGen() {
	e.gen++
	if e.gen == 0 {
		for i := range e.gens {
			e.gens[i] = 0
		}
		e.gen = 1
	}
}

func (e *Evaluator) grow(id uint32) {
	if int(id) >= len(e.gens) {
		n := int(id)*2 + 64
		nv := make([]uint64, n)
		ng := make([]uint32, n)
		copy(nv, e.vals)
		copy(ng, e.gens)
		e.vals, e.gens = nv, ng
	}
}

// Eval evaluates t under model m, with variable ov (may be nil) forced to ovVal.
func (e *Evaluator) Eval(t *Term, m map[string]uint64, ov *Term, ovVal uint64) uint64 {
	if t.Op == OpConst {
		return t.Val
	}
	e.grow(t.ID)
	if e.gens[t.ID] == e.gen {
		return e.vals[t.ID]
	}
	var r uint64
	switch t.Op {
	case OpVar:
		if t == ov {
			r = ovVal & mask(t.W)
		} else {
			r = m[t.Name] & mask(t.W)
		}
	case OpIte:
		if e.Eval(t.Args[0], m, ov, ovVal) != 0 {
			r = e.Eval(t.Args[1], m, ov, ovVal)
		} else {
			r = e.Eval(t.Args[2], m, ov, ovVal)
		}
	case OpAnd:
		r = 1
		for _, a := range t.Args {
			if e.Eval(a, m, ov, ovVal) == 0 {
				r = 0
				break
			}
		}
	case OpOr:
		r = 0
		for _, a := range t.Args {
			if e.Eval(a, m, ov, ovVal) != 0 {
				r = 1
				break
			}
		}
	default:
		var buf [3]uint64
		vals := buf[:len(t.Args)]
		for i, a := range t.Args {
			vals[i] = e.Eval(a, m, ov, ovVal)
		}
		r = evalOp(t.Op, t.W, t.Hi, t.Lo, t.Args[0].W, vals)
	}
	e.grow(t.ID)
	e.vals[t.ID] = r
	e.gens[t.ID] = e.gen
	return r
}

// Vars collects the variables of t into out.
func Vars(t *Term, seen map[uint32]bool, out map[string]uint8) {
	if seen[t.ID] {
		return
	}
	seen[t.ID] = true
	if t.Op == OpVar {
		out[t.Name] = t.W
		return
	}
	for _, a := range t.Args {
		Vars(a, seen, out)
	}
}

func sortStr(w uint8) string {
	if w == 0 {
		return "Bool"
	}
	return fmt.Sprintf("(_ BitVec %d)", w)
}

func constStr(t *Term) string {
	if t.W == 0 {
		if t.Val != 0 {
			return "true"
		}
		return "false"
	}
	if t.W%4 == 0 {
		return fmt.Sprintf("#x%0*x", int(t.W/4), t.Val)
	}
	return fmt.Sprintf("#b%0*b", int(t.W), t.Val)
}

// Printer emits SMT-LIB2 with every shared non-leaf node named by a
// define-fun, incrementally within one solver session.
type Printer struct {
	defined map[uint32]string
	vars    map[string]uint8
}

func NewPrinter() *Printer { return &Printer{defined: map[uint32]string{}, vars: map[string]uint8{}} }

func VarSym(name string) string { return "|" + name + "|" }

// Emit writes the declarations/definitions needed for t to sb and returns
// the expression text that denotes t.
func (p *Printer) Emit(sb *strings.Builder, t *Term) string {
	switch t.Op {
	case OpConst:
		return constStr(t)
	case OpVar:
		if _, ok := p.vars[t.Name]; !ok {
			p.vars[t.Name] = t.W
			fmt.Fprintf(sb, "(declare-fun %s () %s)\n", VarSym(t.Name), sortStr(t.W))
		}
		return VarSym(t.Name)
	}
	if n, ok := p.defined[t.ID]; ok {
		return n
	}
	args := make([]string, len(t.Args))
	for i, a := range t.Args {
		args[i] = p.Emit(sb, a)
	}
	var e string
	switch t.Op {
	case OpExtract:
		e = fmt.Sprintf("((_ extract %d %d) %s)", t.Hi, t.Lo, args[0])
	case OpZExt:
		e = fmt.Sprintf("((_ zero_extend %d) %s)", t.Hi, args[0])
	case OpSExt:
		e = fmt.Sprintf("((_ sign_extend %d) %s)", t.Hi, args[0])
	default:
		e = "(" + opNames[t.Op] + " " + strings.Join(args, " ") + ")"
	}
	n := fmt.Sprintf("t%d", t.ID)
	fmt.Fprintf(sb, "(define-fun %s () %s %s)\n", n, sortStr(t.W), e)
	p.defined[t.ID] = n
	return n
}

func (p *Printer) Vars() map[string]uint8 { return p.vars }

func (t *Term) String() string {
	var sb strings.Builder
	t.write(&sb, 0)
	return sb.String()
}

func (t *Term) write(sb *strings.Builder, depth int) {
	switch t.Op {
	case OpConst:
		sb.WriteString(constStr(t))
		return
	case OpVar:
		sb.WriteString(t.Name)
		return
	}
	if depth > 6 {
		sb.WriteString("…")
		return
	}
	sb.WriteString("(")
	sb.WriteString(opNames[t.Op])
	if t.Op == OpExtract {
		fmt.Fprintf(sb, "[%d:%d]", t.Hi, t.Lo)
	}
	for _, a := range t.Args {
		sb.WriteString(" ")
		a.write(sb, depth+1)
	}
	sb.WriteString(")")
}

var _ = bits.Len
