package bytecode

//verif:dir internal/language/bytecode
//verif:include C01/c01_helpers.go
//verif:include C03/c03_increment.go
//verif:bound one instruction (+ - * / % & | and the six comparisons) on two integer operands of any two types among int8 int16 int32 int64 int uint8 uint16 uint32 with full-width arbitrary values, each operand constant (data.Immutable) or not; executed once in strict and once in relaxed mode from identical states; and the fused Increment instruction (x++, x += k with a constant k) on a variable of every integer type
//verif:outside uint64/uint and floating-point operands (coercions compare float64 values); whole programs; the assignment/argument/return boundaries; every optimizer level

import (
	"github.com/tucats/ego/internal/language/data"
	sym "github.com/tucats/ego/internal/zzverif/sym"
)

var c04Ops = []struct {
	name string
	fn   func(*Context, any) error
}{
	{"+", addByteCode}, {"-", subtractByteCode}, {"*", multiplyByteCode}, {"/", divideByteCode}, {"%", moduloByteCode},
	{"&", bitAndByteCode}, {"|", bitOrByteCode},
	{"<", lessThanByteCode}, {"<=", lessThanOrEqualByteCode}, {">", greaterThanByteCode},
	{">=", greaterThanOrEqualByteCode}, {"==", equalByteCode}, {"!=", notEqualByteCode},
}

func c04Run(mode int, fn func(*Context, any) error, a, b any) (any, error) {
	c := c01Context(mode)
	_ = c.push(a)
	_ = c.push(b)
	if err := fn(c, nil); err != nil {
		return nil, err
	}
	return c.Pop()
}

// VerifC04_strictAcceptedMeansSameUnderRelaxed
func VerifC04_strictAcceptedMeansSameUnderRelaxed() {
	k := sym.Choice("type1", 8)
	j := sym.Choice("type2", 8)
	op := c04Ops[sym.Choice("op", len(c04Ops))]
	var a, b any = c01Int("a", k), c01Int("b", j)
	switch sym.Choice("constness", 3) {
	case 1:
		a = data.Constant(a)
	case 2:
		b = data.Constant(b)
	}
	rs, errS := c04Run(0, op.fn, a, b)
	sym.Reach("strict-run")
	if errS != nil {
		return // strict mode only removes programs
	}
	rr, errR := c04Run(1, op.fn, a, b)
	sym.Reach("relaxed-run")
	sym.Assert(errR == nil, "an operation strict mode accepts fails under relaxed typing")
	if errR == nil {
		sym.Assert(rs == rr, "an operation strict mode accepts gives a different value or type under relaxed typing")
	}
}

// VerifC04_incrementStrictVsRelaxed: the fused Increment instruction.
func VerifC04_incrementStrictVsRelaxed() {
	t := sym.Choice("type", c01IntTypes)
	x := c01Int("x", t)
	var k any = data.Constant(1)
	if sym.Bool("arbitraryIncrement") {
		k = data.Constant(sym.Int("k"))
	}
	cs := c03SymCtx(0, "x", x)
	errS := incrementByteCode(cs, []any{"x", k})
	sym.Reach("strict-run")
	if errS != nil {
		return
	}
	cr := c03SymCtx(1, "x", x)
	errR := incrementByteCode(cr, []any{"x", k})
	sym.Reach("relaxed-run")
	sym.Assert(errR == nil, "an increment strict mode accepts fails under relaxed typing")
	if errR == nil {
		vs, _ := cs.get("x")
		vr, _ := cr.get("x")
		sym.Assert(vs == vr, "an increment strict mode accepts leaves a different value or type under relaxed typing")
	}
}
