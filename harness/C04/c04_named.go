package bytecode

//verif:dir internal/language/bytecode
//verif:bound one assignment of an arbitrary integer literal (full-width int) to a variable of a user-defined scalar type whose base is int, int32, int64 or byte: the strict-mode conversion (data.CoerceLossless) against the relaxed-mode one (data.Coerce)
//verif:outside the instruction handlers around the conversion (checkTypeCore, Store), named types over non-integer bases

import (
	"github.com/tucats/ego/internal/language/data"
	sym "github.com/tucats/ego/internal/zzverif/sym"
)

// VerifC04_namedScalarAssignmentSameInBothModes: a literal that strict mode
// accepts for a variable of a named scalar type becomes the same value of the
// same named type as in relaxed mode.
func VerifC04_namedScalarAssignmentSameInBothModes() {
	bases := []*data.Type{data.IntType, data.Int32Type, data.Int64Type, data.ByteType}
	zeros := []any{int(0), int32(0), int64(0), byte(0)}
	k := sym.Choice("base", len(bases))
	named := data.TypeDefinition("myint", bases[k])
	model := data.NewScalar(named, zeros[k])
	literal := sym.Int("literal")

	strict, errStrict := data.CoerceLossless(literal, model)
	relaxed, errRelaxed := data.Coerce(literal, model)
	sym.Reach("converted")
	if errStrict != nil {
		return // strict mode refuses the literal: nothing is promised about relaxed mode
	}
	sym.Assert(errRelaxed == nil, "relaxed mode refused a literal that strict mode accepts")
	if errRelaxed != nil {
		return
	}
	s1, named1 := strict.(*data.Scalar)
	s2, named2 := relaxed.(*data.Scalar)
	sym.Assert(named1 == named2, "a literal accepted in strict mode has the named type in one mode and the bare base type in the other")
	if named1 && named2 {
		sym.Assert(s1.Type() == s2.Type(), "the two modes give the value different named types")
		sym.Assert(s1.Value() == s2.Value(), "the two modes give the variable different values")
	}
}
