package oauth

//verif:dir internal/server/oauth
//verif:stub github.com/tucats/ego/internal/server/oauth.refreshJWKS = c22Refresh
//verif:bound one key selection for a token header whose alg is one of {ES256, RS256, PS256, HS256, none, EdDSA} and whose kid is absent, not a string, or the empty string or one byte of {a b}; a key cache of 0..2 entries whose kids are each empty or one byte of {a b}, fetched at an arbitrary instant with a TTL of one hour; the last miss-triggered refresh at an arbitrary instant; a refresh either fails or installs another arbitrary set of 1..2 keys
//verif:assume refreshJWKS is replaced by its contract (on success the cache holds exactly the keys the provider publishes now and fetchedAt is the current instant; on failure the cache is unchanged)
//verif:outside the HTTP fetch and JWK decoding in refreshJWKS, signature verification in the JWT library

import (
	"bytes"
	"crypto/ecdsa"
	"crypto/elliptic"
	"crypto/rand"
	"encoding/base64"
	"encoding/json"
	"errors"
	"io"
	"net/http"
	"time"

	"github.com/golang-jwt/jwt/v5"
	sym "github.com/tucats/ego/internal/zzverif/sym"
)

var (
	c22RefreshFails bool
	c22Published    []publicKeyEntry
	c22Refreshed    bool
)

func c22Refresh(url string) error {
	if c22RefreshFails {
		return errors.New("provider unreachable")
	}
	jwksCache.mu.Lock()
	jwksCache.keys = c22Published
	jwksCache.fetchedAt = time.Now()
	jwksCache.mu.Unlock()
	c22Refreshed = true
	return nil
}

// c22Provider is the native twin of the stand-in above: the real refreshJWKS
// runs against a transport that answers with the published set as a real
// JWKS document (or fails).
type c22Provider struct{}

func (c22Provider) RoundTrip(r *http.Request) (*http.Response, error) {
	if c22RefreshFails {
		return nil, errors.New("provider unreachable")
	}
	var doc jwksDocument
	for _, e := range c22Published {
		k, _ := ecdsa.GenerateKey(elliptic.P256(), rand.Reader)
		size := (k.Curve.Params().BitSize + 7) / 8
		x, y := make([]byte, size), make([]byte, size)
		k.X.FillBytes(x)
		k.Y.FillBytes(y)
		doc.Keys = append(doc.Keys, jwkKey{Kid: e.Kid, Kty: "EC", Alg: "ES256", Use: "sig", Crv: "P-256",
			X: base64.RawURLEncoding.EncodeToString(x), Y: base64.RawURLEncoding.EncodeToString(y)})
	}
	b, _ := json.Marshal(doc)
	c22Refreshed = true
	return &http.Response{StatusCode: 200, Status: "200 OK", Body: io.NopCloser(bytes.NewReader(b)), Header: http.Header{}, Request: r}, nil
}

func c22Kid(label string) string {
	if sym.Bool(label + "Empty") {
		return ""
	}
	s := sym.StringN(label, 1)
	sym.Assume(s[0] == 'a' || s[0] == 'b')
	return s
}

type c22Key struct{ n int }

func c22KeySet(label string, min int) []publicKeyEntry {
	n := min + sym.Choice(label+"Count", 3-min)
	var out []publicKeyEntry
	for i := 0; i < n; i++ {
		out = append(out, publicKeyEntry{Kid: c22Kid(label + "Kid"), Algorithm: "ES256", Key: &c22Key{i}})
	}
	return out
}

func VerifC22_onlyPublishedAsymmetricKeysAreSelected() {
	sym.WithFakeClock(func() {
		methods := []jwt.SigningMethod{jwt.SigningMethodES256, jwt.SigningMethodRS256, jwt.SigningMethodPS256, jwt.SigningMethodHS256, jwt.SigningMethodNone, jwt.SigningMethodEdDSA}
		mi := sym.Choice("alg", len(methods))
		m := methods[mi]
		header := map[string]any{"alg": m.Alg()}
		kid := ""
		switch sym.Choice("kidForm", 3) {
		case 0: // absent
		case 1:
			header["kid"] = 7
		default:
			kid = c22Kid("kid")
			header["kid"] = kid
		}

		cached := c22KeySet("cached", 0)
		c22Published = c22KeySet("published", 1)
		c22RefreshFails = sym.Bool("refreshFails")
		c22Refreshed = false
		fetched, lastMiss := sym.Instant("fetchedAt"), sym.Instant("lastMissRefresh")
		now := sym.Clock()
		sym.Assume(!fetched.After(now) && !lastMiss.After(now))
		jwksCache.mu.Lock()
		jwksCache.keys, jwksCache.fetchedAt, jwksCache.ttl = cached, fetched, time.Hour
		jwksCache.mu.Unlock()
		missRefresh.mu.Lock()
		missRefresh.last = lastMiss
		missRefresh.mu.Unlock()
		defer resetJWKSCache()
		defer resetMissRefresh()
		if !sym.Symbolic() {
			saved := idpClient
			idpClient = &http.Client{Transport: c22Provider{}}
			defer func() { idpClient = saved }()
		}

		key, err := selectVerificationKey("http://127.0.0.1:1/jwks", &jwt.Token{Method: m, Header: header})
		sym.Observe("selected", err == nil)
		if err != nil {
			sym.Reach("refused")
			return
		}
		sym.Reach("selected")
		sym.Assert(mi == 0 || mi == 1, "a verification key was handed out for a token whose alg is not ECDSA or RSA")
		jwksCache.mu.RLock()
		current := jwksCache.keys
		jwksCache.mu.RUnlock()
		sym.Assert(len(current) == len(map[bool][]publicKeyEntry{false: cached, true: c22Published}[c22Refreshed]), "the key cache does not hold the set that was last fetched")
		var entry *publicKeyEntry
		for i := range current {
			if current[i].Key == key {
				entry = &current[i]
				break
			}
		}
		sym.Assert(entry != nil, "the selected key is not one of the provider's keys as last fetched")
		if entry != nil && kid != "" {
			sym.Assert(entry.Kid == kid, "a token naming one key ID was given a different key")
		}
	})
}
