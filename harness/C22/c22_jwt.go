package oauth

//verif:dir internal/server/oauth
//verif:stub github.com/tucats/ego/internal/server/oauth.parseAndValidateJWT = c22Parse
//verif:stub github.com/tucats/ego/internal/resources.Open = c22Open
//verif:stub (*github.com/tucats/ego/internal/resources.ResHandle).CreateIf = c22CreateIf
//verif:stub (*github.com/tucats/ego/internal/resources.ResHandle).Insert = c22Insert
//verif:stub (*github.com/tucats/ego/internal/resources.ResHandle).Read = c22Read
//verif:stub (*github.com/tucats/ego/internal/resources.ResHandle).Update = c22Update
//verif:stub (*github.com/tucats/ego/internal/resources.ResHandle).Delete = c22Delete
//verif:stub (github.com/tucats/ego/internal/resources.ResHandle).Equals = c22Equals
//verif:dropgo github.com/tucats/ego/internal/caches.expire
//verif:overlay internal/language/tokens/zz_verif_c22_hook.go <- harness:C22/tokens_hook.go.txt
//verif:bound histories of 4 operations (thorough: also 6 operations over a single JWT) from {present token 0 or 1, revoke a token ID, the result cache loses a token's entry, the revocation cache loses an ID's entry} over two JWTs, each verifying or not, with exp an arbitrary instant and the token ID one of {none, j0, j1}; single presentations with every combination of valid/invalid signature, issuer, audience and present/absent exp; the clock an arbitrary non-decreasing instant before every operation, all within one year of the first
//verif:assume parseAndValidateJWT is replaced under the engine by its contract: it returns the claims exactly when signature, issuer and audience verify, exp is present and the clock is before exp (the native replay twin runs the real function on real ES256-signed tokens against a published key); the revocation table returns exactly the rows whose id equals the filter (natively: the real SQLite store); cache entries may disappear at any time (sweeper, full cache, purge) and this is modelled by explicit delete operations
//verif:outside the JWT library itself (signature arithmetic, claim parsing), JWKS fetching over HTTP, concurrent requests, the bearer dispatch in router/auth.go

import (
	"crypto/ecdsa"
	"crypto/elliptic"
	"crypto/rand"
	"errors"
	"os"
	"time"

	"github.com/golang-jwt/jwt/v5"
	"github.com/tucats/ego/internal/caches"
	"github.com/tucats/ego/internal/language/tokens"
	"github.com/tucats/ego/internal/resources"
	sym "github.com/tucats/ego/internal/zzverif/sym"
)

type c22Token struct {
	str                          string
	sigOK, issOK, audOK, hasExp  bool
	exp                          time.Time
	jti                          string
	subject                      string
}

var (
	c22Tokens []*c22Token
	c22Rows   []*tokens.BlackListItem
)

const (
	c22Issuer   = "https://idp.example"
	c22Audience = "ego"
)

// ---- engine-side stand-ins ------------------------------------------------

func c22Parse(jwksURL, tokenStr, issuer, audience string) (*jwtClaims, error) {
	for _, t := range c22Tokens {
		if t.str != tokenStr {
			continue
		}
		if !t.sigOK || !t.hasExp {
			return nil, errors.New("token invalid")
		}
		if issuer != "" && !t.issOK {
			return nil, errors.New("issuer mismatch")
		}
		if audience != "" && !t.audOK {
			return nil, errors.New("audience mismatch")
		}
		if !time.Now().Before(t.exp) {
			return nil, errors.New("token expired")
		}
		c := &jwtClaims{}
		c.Subject = t.subject
		c.ID = t.jti
		c.ExpiresAt = &jwt.NumericDate{Time: t.exp}
		return c, nil
	}
	return nil, errors.New("malformed token")
}

func c22Open(object any, table, connection string) (*resources.ResHandle, error) {
	return &resources.ResHandle{}, nil
}

func c22CreateIf(r *resources.ResHandle) error { return nil }

func c22Equals(r resources.ResHandle, name string, value any) *resources.Filter {
	return &resources.Filter{Name: name, Value: value, Operator: "="}
}

func c22Match(row *tokens.BlackListItem, filters []*resources.Filter) bool {
	for _, f := range filters {
		if f == nil {
			continue
		}
		if v, _ := f.Value.(string); f.Name == "id" && row.ID != v {
			return false
		}
	}
	return true
}

func c22Insert(r *resources.ResHandle, v any) error {
	item := *(v.(*tokens.BlackListItem))
	for _, row := range c22Rows {
		if row.ID == item.ID {
			return errors.New("UNIQUE constraint failed: blacklist.id")
		}
	}
	c22Rows = append(c22Rows, &item)
	return nil
}

func c22Read(r *resources.ResHandle, filters ...*resources.Filter) ([]any, error) {
	var out []any
	for _, row := range c22Rows {
		if c22Match(row, filters) {
			cp := *row
			out = append(out, &cp)
		}
	}
	return out, nil
}

func c22Update(r *resources.ResHandle, v any, filters ...*resources.Filter) error {
	item := v.(*tokens.BlackListItem)
	for _, row := range c22Rows {
		if c22Match(row, filters) {
			*row = *item
		}
	}
	return nil
}

func c22Delete(r *resources.ResHandle, filters ...*resources.Filter) (int64, error) {
	var keep []*tokens.BlackListItem
	var n int64
	for _, row := range c22Rows {
		if c22Match(row, filters) {
			n++
		} else {
			keep = append(keep, row)
		}
	}
	c22Rows = keep
	return n, nil
}

// ---- native twin: real keys, real signed tokens, real store -----------------

func c22Mint(good, bad *ecdsa.PrivateKey, t *c22Token) string {
	claims := jwt.MapClaims{"sub": t.subject}
	if t.jti != "" {
		claims["jti"] = t.jti
	}
	if t.hasExp {
		claims["exp"] = t.exp.Unix()
	}
	if t.issOK {
		claims["iss"] = c22Issuer
	} else {
		claims["iss"] = "https://elsewhere.example"
	}
	if t.audOK {
		claims["aud"] = c22Audience
	} else {
		claims["aud"] = "another-service"
	}
	tok := jwt.NewWithClaims(jwt.SigningMethodES256, claims)
	tok.Header["kid"] = "k1"
	key := good
	if !t.sigOK {
		key = bad
	}
	s, err := tok.SignedString(key)
	if err != nil {
		panic(err)
	}
	return s
}

func VerifC22_revokedOrExpiredJWTIsRefused() {
	var dbFile string
	if !sym.Symbolic() {
		f, err := os.CreateTemp("", "c22-*.db")
		if err != nil {
			panic(err)
		}
		dbFile = f.Name()
		f.Close()
		defer os.Remove(dbFile)
	}
	c22Rows = nil
	if err := tokens.SetDatabasePath("sqlite3://" + dbFile); err != nil {
		panic(err)
	}
	sym.WithFakeClock(c22History)
}

// VerifC22_everyClaimIsVerified: one presentation (or one revocation first) of a
// JWT with every combination of valid/invalid signature, issuer, audience and
// exp: accepted only if all four verify.
func VerifC22_everyClaimIsVerified() {
	var dbFile string
	if !sym.Symbolic() {
		f, err := os.CreateTemp("", "c22-*.db")
		if err != nil {
			panic(err)
		}
		dbFile = f.Name()
		f.Close()
		defer os.Remove(dbFile)
	}
	c22Rows = nil
	if err := tokens.SetDatabasePath("sqlite3://" + dbFile); err != nil {
		panic(err)
	}
	sym.WithFakeClock(func() { c22Run(true) })
}

func c22History() { c22Run(false) }

func c22Run(singleShot bool) {
	sym.ClockSpan(366 * 24 * 3600) // keeps the native replay (cache sweepers wake once per fake minute) fast
	sym.Clock()
	jtis := []string{"", "j0", "j1"}
	c22Tokens = nil
	// thorough adds deeper histories over a single token
	deep := !singleShot && sym.Thorough() && sym.Bool("oneTokenDeepHistory")
	nTok := 2
	if deep {
		nTok = 1
	}
	for k := 0; k < nTok; k++ {
		// in the histories a token either verifies completely or has a bad
		// signature; each single claim is varied in VerifC22_everyClaimIsVerified
		valid := sym.Bool("verifies")
		t := &c22Token{
			str:     []string{"h.p0.s", "h.p1.s"}[k],
			sigOK:   valid,
			issOK:   true,
			audOK:   true,
			hasExp:  true,
			jti:     jtis[sym.Choice("jti", 3)],
			subject: []string{"alice", "bob"}[k],
		}
		if singleShot {
			t.sigOK, t.issOK, t.audOK, t.hasExp = sym.Bool("signatureValid"), sym.Bool("issuerMatches"), sym.Bool("audienceMatches"), sym.Bool("hasExp")
		}
		t.exp = sym.Instant("exp")
		c22Tokens = append(c22Tokens, t)
	}

	globalConfigMu.Lock()
	savedCfg, savedURL := globalConfig, jwksURL
	globalConfig = rsConfig{Provider: c22Issuer, Audience: c22Audience, UserClaim: "sub", PermissionClaim: "scope", JWKSCacheTTL: time.Hour}
	jwksURL = "http://127.0.0.1:1/jwks"
	globalConfigMu.Unlock()
	caches.Purge(caches.OAuthJWTCache)
	caches.Purge(caches.BlacklistCache)
	// entries are only lost through the explicit operations below: natively the
	// sweeper must not evict them when the (fake) clock jumps by years
	_ = caches.SetExpiration(caches.OAuthJWTCache, "900000h")
	_ = caches.SetExpiration(caches.BlacklistCache, "900000h")

	if !sym.Symbolic() {
		good, _ := ecdsa.GenerateKey(elliptic.P256(), rand.Reader)
		bad, _ := ecdsa.GenerateKey(elliptic.P256(), rand.Reader)
		for _, t := range c22Tokens {
			t.str = c22Mint(good, bad, t)
		}
		jwksCache.mu.Lock()
		jwksCache.keys = []publicKeyEntry{{Kid: "k1", Algorithm: "ES256", Key: &good.PublicKey}}
		jwksCache.fetchedAt = time.Now()
		jwksCache.ttl = 1 << 62
		jwksCache.mu.Unlock()
	}
	defer func() {
		globalConfigMu.Lock()
		globalConfig, jwksURL = savedCfg, savedURL
		globalConfigMu.Unlock()
		if !sym.Symbolic() {
			resetJWKSCache()
			tokens.VerifCloseStore()
			caches.PurgeAll()
			time.Sleep(3 * time.Minute) // lets the cache sweepers notice the purge and exit
		}
	}()

	revoked := map[string]bool{}
	steps := 4
	if deep {
		steps = 6
	}
	if singleShot {
		steps = 2
	}
	for i := 0; i < steps; i++ {
		now := sym.Clock()
		switch sym.Choice("op", 4) {
		case 0:
			t := c22Tokens[sym.Choice("token", nTok)]
			user, _, err := ValidateJWT(1, t.str)
			sym.Observe("accepted", err == nil)
			if err != nil {
				sym.Reach("refused")
				continue
			}
			sym.Reach("accepted")
			sym.Assert(t.sigOK, "a JWT whose signature does not verify was accepted")
			sym.Assert(t.issOK && t.audOK, "a JWT for another issuer or audience was accepted")
			sym.Assert(t.hasExp && now.Before(t.exp), "an expired JWT (or one without exp) was accepted")
			sym.Assert(t.jti == "" || !revoked[t.jti], "a JWT whose token ID had been revoked was accepted")
			sym.Assert(user == t.subject, "a JWT was accepted as a user other than its subject")
		case 1:
			j := jtis[1+sym.Choice("revokeID", 2)]
			if revoked[j] {
				continue
			}
			if err := tokens.Blacklist(j); err != nil {
				panic(err)
			}
			revoked[j] = true
		case 2:
			caches.Delete(caches.OAuthJWTCache, c22Tokens[sym.Choice("lostToken", nTok)].str)
		default:
			caches.Delete(caches.BlacklistCache, jtis[1+sym.Choice("lostID", 2)])
		}
	}
}
