package router

//verif:dir internal/router
//verif:stub github.com/tucats/ego/internal/util.Encrypt = c21Encrypt
//verif:stub github.com/tucats/ego/internal/util.Decrypt = c21Decrypt
//verif:stub encoding/json.Marshal = c21Marshal
//verif:stub encoding/json.Unmarshal = c21Unmarshal
//verif:stub github.com/tucats/ego/internal/resources.Open = c21Open
//verif:stub (*github.com/tucats/ego/internal/resources.ResHandle).CreateIf = c21CreateIf
//verif:stub (*github.com/tucats/ego/internal/resources.ResHandle).Insert = c21Insert
//verif:stub (*github.com/tucats/ego/internal/resources.ResHandle).Read = c21Read
//verif:stub (*github.com/tucats/ego/internal/resources.ResHandle).Update = c21Update
//verif:stub (*github.com/tucats/ego/internal/resources.ResHandle).Delete = c21Delete
//verif:stub (github.com/tucats/ego/internal/resources.ResHandle).Equals = c21Equals
//verif:stub github.com/tucats/ego/internal/util.FormatDuration = c21FormatDuration
//verif:dropgo github.com/tucats/ego/internal/caches.expire
//verif:overlay internal/language/tokens/zz_verif_c21_hook.go <- harness:C22/tokens_hook.go.txt
//verif:bound histories of 4 (quick) / 5 (thorough) operations from {present the token (through Session.Authenticate, tokens.Validate or tokens.Unwrap), revoke its ID, un-revoke it, flush the revocation list, the decrypted-token cache loses the entry, the revocation cache is purged} over one token with a one-minute lifetime; histories of 3 operations from {present, revoke, un-revoke} over two tokens, the second possibly sealed under a different token key; the clock an arbitrary non-decreasing instant before every operation, all within one year of the first; one token presented twice with instants that carry arbitrary half seconds; plus every single-byte alteration of a token string
//verif:assume under the engine util.Encrypt/Decrypt are an ideal authenticated cipher (a ciphertext decrypts only under its own key and only if unaltered: util.Decrypt itself is property C27) and encoding/json round-trips the Token struct; the revocation table returns exactly the rows whose id matches. The native replay twin uses the real AES-GCM code, the real JSON codec, the real SQLite store and a testing/synctest clock.
//verif:bound one validation request racing one revocation of the same token (every interleaving at lock acquisitions), followed by one request after both have finished
//verif:outside more than two concurrent requests; changing the token key while tokens are cached; the remote-authority mode; store faults; cluster peers

import (
	"errors"
	"net/http"
	"net/url"
	"os"
	"path/filepath"
	"sync"
	"syscall"
	"time"

	"github.com/tucats/ego/internal/caches"
	"github.com/tucats/ego/internal/cli/settings"
	"github.com/tucats/ego/internal/cli/ui"
	"github.com/tucats/ego/internal/defs"
	"github.com/tucats/ego/internal/language/tokens"
	"github.com/tucats/ego/internal/resources"
	auth "github.com/tucats/ego/internal/server/auth"
	sym "github.com/tucats/ego/internal/zzverif/sym"
)

// ---- engine-side stand-ins ------------------------------------------------

type c21Sealed struct{ data, key string }

var (
	c21Ciphertexts []c21Sealed
	c21Encoded     []tokens.Token
	c21Rows        []*tokens.BlackListItem
)

func c21Label(prefix string, n int) string {
	d := string(rune('0' + n))
	// labels differ in three bytes (no single-byte change maps one to another)
	// and are long, like real ciphertexts: a token string has well over 64 characters
	return prefix + d + d + d + "........................"
}

func c21Encrypt(data, key string) (string, error) {
	c21Ciphertexts = append(c21Ciphertexts, c21Sealed{data, key})
	return c21Label("sealed#", len(c21Ciphertexts)-1), nil
}

func c21Decrypt(data, key string) (string, error) {
	for i, c := range c21Ciphertexts {
		if data == c21Label("sealed#", i) {
			if c.key != key {
				return "", errors.New("cipher: message authentication failed")
			}
			return c.data, nil
		}
	}
	return "", errors.New("cipher: message authentication failed")
}

func c21Marshal(v any) ([]byte, error) {
	t, ok := v.(tokens.Token)
	if !ok {
		return []byte("{}"), nil
	}
	c21Encoded = append(c21Encoded, t)
	return []byte(c21Label("token#", len(c21Encoded)-1)), nil
}

func c21Unmarshal(data []byte, v any) error {
	for i := range c21Encoded {
		if string(data) == c21Label("token#", i) {
			if p, ok := v.(*tokens.Token); ok {
				*p = c21Encoded[i]
				return nil
			}
		}
	}
	return errors.New("invalid character")
}

// FormatDuration only feeds log lines here.
func c21FormatDuration(d time.Duration, extraSpaces bool) string { return "" }

func c21Open(object any, table, connection string) (*resources.ResHandle, error) {
	return &resources.ResHandle{}, nil
}
func c21CreateIf(r *resources.ResHandle) error { return nil }
func c21Equals(r resources.ResHandle, name string, value any) *resources.Filter {
	return &resources.Filter{Name: name, Value: value, Operator: "="}
}
func c21Match(row *tokens.BlackListItem, filters []*resources.Filter) bool {
	for _, f := range filters {
		if f == nil {
			continue
		}
		if v, _ := f.Value.(string); f.Name == "id" && row.ID != v {
			return false
		}
	}
	return true
}
func c21Insert(r *resources.ResHandle, v any) error {
	item := *(v.(*tokens.BlackListItem))
	c21Rows = append(c21Rows, &item)
	return nil
}
func c21Read(r *resources.ResHandle, filters ...*resources.Filter) ([]any, error) {
	var out []any
	for _, row := range c21Rows {
		if c21Match(row, filters) {
			cp := *row
			out = append(out, &cp)
		}
	}
	return out, nil
}
func c21Update(r *resources.ResHandle, v any, filters ...*resources.Filter) error {
	item := v.(*tokens.BlackListItem)
	for _, row := range c21Rows {
		if c21Match(row, filters) {
			*row = *item
		}
	}
	return nil
}
func c21Delete(r *resources.ResHandle, filters ...*resources.Filter) (int64, error) {
	var keep []*tokens.BlackListItem
	var n int64
	for _, row := range c21Rows {
		if c21Match(row, filters) {
			n++
		} else {
			keep = append(keep, row)
		}
	}
	c21Rows = keep
	return n, nil
}

// ---- both worlds ------------------------------------------------------------

type c21Users struct{}

func (c21Users) ReadUser(session int, name string, doNotLog bool) (defs.User, error) {
	return defs.User{Name: name, Permissions: []string{defs.LogonPermission}}, nil
}
func (c21Users) WriteUser(session int, u defs.User) error     { return nil }
func (c21Users) DeleteUser(session int, name string) error    { return nil }
func (c21Users) ListUsers(suppress bool) map[string]defs.User { return nil }
func (c21Users) Flush() error                                 { return nil }
func (c21Users) Close() error                                 { return nil }

type c21Tok struct {
	str     string
	id      string
	issued  bool
	foreign bool // sealed under another server's key
	expires time.Time
	revoked bool
}

const c21Instance = "6ba7b810-9dad-11d1-80b4-00c04fd430c8"

func c21Issue(t *c21Tok, name string, now time.Time) {
	if t.foreign {
		settings.SetDefault(defs.ServerTokenKeySetting, "another-servers-key")
	}
	s, err := tokens.New(name, "", "1m", c21Instance, 1)
	settings.SetDefault(defs.ServerTokenKeySetting, "this-servers-key")
	if err != nil {
		panic(err)
	}
	t.str, t.issued, t.expires = s, true, now.Add(time.Minute)
	if !t.foreign {
		tok, err := tokens.Unwrap(s, 1)
		if err != nil {
			panic(err)
		}
		t.id = tok.TokenID.String()
	}
}

// c21Present shows the token string to one of the three validation entry points.
func c21Present(way int, s string) bool {
	switch way {
	case 0:
		r := &http.Request{Method: http.MethodGet, URL: &url.URL{Path: "/x"}, Header: http.Header{"Authorization": {"Bearer " + s}}}
		sess := &Session{ID: 1}
		sess.Authenticate(r)
		return sess.Authenticated
	case 1:
		ok, _ := tokens.Validate(s, 1)
		return ok
	default:
		t, err := tokens.Unwrap(s, 1)
		return err == nil && t != nil
	}
}

func c21World(body func()) { c21WorldClock(false, body) }

// c21WorldClock: realClock keeps the native run out of the fake-clock bubble
// (needed where the run waits for real I/O).
func c21WorldClock(realClock bool, body func()) {
	var dbFile string
	if !sym.Symbolic() {
		f, err := os.CreateTemp("", "c21-*.db")
		if err != nil {
			panic(err)
		}
		dbFile = f.Name()
		f.Close()
		defer os.Remove(dbFile)
	}
	c21Rows, c21Ciphertexts, c21Encoded = nil, nil, nil
	if err := tokens.SetDatabasePath("sqlite3://" + dbFile); err != nil {
		panic(err)
	}
	savedAuth := auth.AuthService
	auth.AuthService = c21Users{}
	settings.SetDefault(defs.ServerTokenKeySetting, "this-servers-key")
	settings.SetDefault(defs.ServerAuthoritySetting, "")
	defer func() { auth.AuthService = savedAuth }()
	run := sym.WithFakeClock
	if realClock {
		run = func(f func()) { f() }
	}
	run(func() {
		// one year is ample for one-minute tokens, and keeps the native replay
		// (whose cache sweepers wake once per fake minute) fast
		sym.ClockSpan(366 * 24 * 3600)
		caches.Purge(caches.TokenCache)
		caches.Purge(caches.BlacklistCache)
		// entries are only lost through explicit operations: natively the sweeper
		// must not evict them when the (fake) clock jumps
		_ = caches.SetExpiration(caches.TokenCache, "900000h")
		_ = caches.SetExpiration(caches.BlacklistCache, "900000h")
		defer func() {
			if !sym.Symbolic() {
				tokens.VerifCloseStore()
				caches.PurgeAll()
				if !realClock {
					time.Sleep(3 * time.Minute)
				}
			}
		}()
		body()
	})
}

// c21Check presents the token and compares the verdict with the reference.
func c21Check(t *c21Tok, way int, now time.Time) {
	accepted := c21Present(way, t.str)
	sym.Observe("accepted", accepted)
	want := !t.foreign && !now.After(t.expires) && !t.revoked
	if accepted {
		sym.Reach("accepted")
		sym.Assert(!t.foreign, "a token sealed under another key was accepted")
		sym.Assert(!now.After(t.expires), "an expired token was accepted")
		sym.Assert(!t.revoked, "a token whose ID is on the revocation list was accepted")
	} else {
		sym.Reach("refused")
		sym.Assert(!want, "a valid, unexpired, unrevoked token of this server was refused")
	}
}

// VerifC21_tokenHonouredExactlyWhileValid: one token, every history of
// validation, revocation, un-revocation, flush, cache loss and time.
func VerifC21_tokenHonouredExactlyWhileValid() {
	c21World(func() {
		now := sym.Clock()
		t := &c21Tok{}
		c21Issue(t, "alice", now)
		steps := 4
		if sym.Thorough() {
			steps = 5
		}
		for i := 0; i < steps; i++ {
			now = sym.Clock()
			switch sym.Choice("op", 6) {
			case 0:
				// tokens.Unwrap is what the router path calls on a cache miss: the
				// deeper tier leaves the direct call to it out
				ways := 3
				if sym.Thorough() {
					ways = 2
				}
				c21Check(t, sym.Choice("way", ways), now)
			case 1:
				if t.revoked {
					continue
				}
				if err := tokens.Blacklist(t.id); err != nil {
					panic(err)
				}
				t.revoked = true
			case 2:
				err := tokens.Delete(t.id)
				sym.Assert((err == nil) == t.revoked, "removing an ID from the revocation list did not report whether it was there")
				t.revoked = false
			case 3:
				if _, err := tokens.Flush(); err != nil {
					panic(err)
				}
				t.revoked = false
			case 4:
				caches.Delete(caches.TokenCache, t.str) // swept, or never stored because the cache was full
			default:
				caches.Purge(caches.BlacklistCache)
			}
		}
	})
}

// VerifC21_tokensAreIndependent: two tokens, the second possibly sealed under
// another server's key: what happens to one never changes the verdict on the other.
func VerifC21_tokensAreIndependent() {
	c21World(func() {
		now := sym.Clock()
		toks := []*c21Tok{{}, {foreign: sym.Bool("secondTokenForeign")}}
		c21Issue(toks[0], "alice", now)
		now = sym.Clock()
		c21Issue(toks[1], "bob", now)
		for i := 0; i < 3; i++ {
			now = sym.Clock()
			t := toks[sym.Choice("token", 2)]
			switch sym.Choice("op", 3) {
			case 0:
				c21Check(t, sym.Choice("way", 3), now)
			case 1:
				if t.foreign || t.revoked {
					continue
				}
				if err := tokens.Blacklist(t.id); err != nil {
					panic(err)
				}
				t.revoked = true
			default:
				if t.foreign {
					continue
				}
				err := tokens.Delete(t.id)
				sym.Assert((err == nil) == t.revoked, "removing an ID from the revocation list did not report whether it was there")
				t.revoked = false
			}
		}
	})
}

// VerifC21_expiryIsExactToTheInstant: the clock carries half seconds here, so
// that a validation path that compares whole seconds only is told apart from
// one that compares instants: a token is refused from the first instant after
// its expiry, on every path, cached or not.
func VerifC21_expiryIsExactToTheInstant() {
	c21World(func() {
		now := sym.ClockFine()
		t := &c21Tok{}
		c21Issue(t, "alice", now)
		for i := 0; i < 2; i++ {
			now = sym.ClockFine()
			c21Check(t, sym.Choice("way", 3), now)
		}
	})
}

// VerifC21_alteredTokenIsRefused: any single-byte change of a token string is
// refused, unless it only changes the case of a hex digit (the same token).
func VerifC21_alteredTokenIsRefused() {
	c21World(func() {
		now := sym.Clock()
		t := &c21Tok{}
		c21Issue(t, "alice", now)
		seenBefore := sym.Bool("seenBefore")
		if seenBefore {
			sym.Assert(c21Present(0, t.str), "a fresh token was refused")
		}
		pos := sym.Choice("position", 8)
		b := []byte(t.str)
		if sym.Bool("fromTheEnd") {
			pos = len(b) - 1 - pos
		}
		nb := sym.Byte("newByte")
		sym.Assume(nb != b[pos])
		sameDigit := nb|0x20 == b[pos]|0x20 && ((nb|0x20) >= 'a' && (nb|0x20) <= 'f')
		b[pos] = nb
		accepted := c21Present(sym.Choice("way", 3), string(b))
		sym.Reach("presented")
		sym.Observe("accepted", accepted)
		if accepted {
			sym.Assert(sameDigit, "an altered token string was accepted")
		}
	})
}

// VerifC21_revocationRacesWithValidation: one request validates the token
// while an administrator revokes it. Whatever the interleaving, a request
// made after both have finished must be refused.
//
// Under the engine the two run as threads and the scheduler choices are
// solver variables. Natively the one dangerous interleaving is forced instead
// of hoped for: the server log is pointed at a full FIFO and the AUTH logger
// switched on, so the validating request stops at its "token decrypted" log
// line (after it has consulted the revocation list, before its caller caches
// the token); the revocation then runs to completion, and the FIFO is drained.
func VerifC21_revocationRacesWithValidation() {
	c21WorldClock(!sym.Symbolic(), func() {
		now := sym.Clock()
		t := &c21Tok{}
		c21Issue(t, "alice", now)
		if sym.Symbolic() {
			var wg sync.WaitGroup
			wg.Add(2)
			go func() {
				defer wg.Done()
				c21Present(0, t.str)
			}()
			go func() {
				defer wg.Done()
				if err := tokens.Blacklist(t.id); err != nil {
					panic(err)
				}
			}()
			wg.Wait()
		} else {
			c21ForcedRace(t)
		}
		sym.Reach("raced")
		sym.Assert(!c21Present(0, t.str), "a request made after the revocation had completed was accepted")
	})
}

func c21ForcedRace(t *c21Tok) {
	dir, err := os.MkdirTemp("", "c21race")
	if err != nil {
		panic(err)
	}
	defer os.RemoveAll(dir)
	fifo := filepath.Join(dir, "server.log")
	if err := syscall.Mkfifo(fifo, 0o600); err != nil {
		panic(err)
	}
	if err := ui.OpenLogFile(fifo, false); err != nil {
		panic(err)
	}
	fd, err := syscall.Open(fifo, syscall.O_RDWR|syscall.O_NONBLOCK, 0)
	if err != nil {
		panic(err)
	}
	defer syscall.Close(fd)
	for _, chunk := range [][]byte{make([]byte, 4096), make([]byte, 1)} {
		for {
			if _, err := syscall.Write(fd, chunk); err != nil {
				break // EAGAIN: no room for another chunk of this size
			}
		}
	}
	ui.Active(ui.AuthLogger, true)
	done := make(chan struct{})
	go func() {
		defer close(done)
		c21Present(0, t.str)
	}()
	time.Sleep(500 * time.Millisecond) // the request is now parked in its log write
	if err := tokens.Blacklist(t.id); err != nil {
		panic(err)
	}
	buf := make([]byte, 65536)
	for finished := false; !finished; {
		select {
		case <-done:
			finished = true
		default:
			if _, err := syscall.Read(fd, buf); err != nil {
				time.Sleep(time.Millisecond)
			}
		}
	}
	ui.Active(ui.AuthLogger, false)
	for {
		if n, err := syscall.Read(fd, buf); err != nil || n == 0 {
			break
		}
	}
	_ = ui.SaveLastLog()
}
