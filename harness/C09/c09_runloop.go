package bytecode

//verif:dir internal/language/bytecode
//verif:stub os/signal.Notify = c09Notify
//verif:stub os/signal.Stop = c09Stop
//verif:stub github.com/tucats/ego/internal/cli/ui.Say = c09Say
//verif:stub github.com/tucats/ego/internal/cli/settings.GetBool = c09GetBool
//verif:stub (*github.com/tucats/ego/internal/language/bytecode.Context).FormatFrames = c09Frames
//verif:bound one call of (*Context).RunFromAddress on a program of 1..3 instructions from {Push, Drop (fails on an empty stack), Stop, Panic (an Ego error, or a real Go panic when runtime panics are enabled)}; an interrupt signal is pending at registration time or never arrives; every interleaving of the run loop with its interrupt watcher (at channel operations and atomic accesses)
//verif:assume os/signal.Notify and Stop only register and unregister the channel (the signal, if any, is placed in the channel at registration); the call-frame text printed on an Ego panic is a constant
//verif:outside timers (timer.go), goroutines started by Ego `go` statements, the server's per-request workers, programs longer than the bound and the other opcodes

import (
	"io"
	"os"

	sym "github.com/tucats/ego/internal/zzverif/sym"
)

var (
	c09Registered int
	c09Interrupt  bool
	c09GoPanics   bool
)

func c09Notify(c chan<- os.Signal, sig ...os.Signal) {
	c09Registered++
	if c09Interrupt {
		select {
		case c <- os.Interrupt:
		default:
		}
	}
}
func c09Stop(c chan<- os.Signal)               { c09Registered-- }
func c09Say(msg string, args ...map[string]any) {}
func c09GetBool(key string) bool                { return c09GoPanics }
func c09Frames(c *Context, mode bool) string    { return "frames" }

// VerifC09_runLoopLeavesNothingRunning: whatever way the run loop is left, the
// interrupt watcher it started has ended and the signal registration is gone.
func VerifC09_runLoopLeavesNothingRunning() {
	initializeDispatch()
	n := 1 + sym.Choice("instructions", 3)
	var prog []instruction
	for i := 0; i < n; i++ {
		switch sym.Choice("opcode", 4) {
		case 0:
			prog = append(prog, instruction{Operation: Push, Operand: 1})
		case 1:
			prog = append(prog, instruction{Operation: Drop})
		case 2:
			prog = append(prog, instruction{Operation: Stop})
		default:
			prog = append(prog, instruction{Operation: Panic, Operand: "boom"})
		}
	}
	c09Interrupt, c09GoPanics = sym.Bool("interruptPending"), sym.Bool("runtimePanicsEnabled")
	c09Registered = 0
	if !sym.Symbolic() {
		c09Native(prog)
		return
	}
	c := &Context{name: "verif", stack: make([]any, 8), bc: &ByteCode{name: "verif", instructions: prog, nextAddress: len(prog)}, output: io.Discard}
	paniced := false
	func() {
		defer func() {
			if r := recover(); r != nil {
				paniced = true
			}
		}()
		_ = c.RunFromAddress(0)
	}()
	sym.Reach("left")
	if paniced {
		sym.Reach("leftByGoPanic")
	}
	sym.Settle()
	sym.Assert(sym.LiveThreads() == 0, "a goroutine started by the run loop is still alive after the run loop was left")
	sym.Assert(c09Registered == 0, "the run loop left its interrupt channel registered with os/signal")
}

// c09Native: the real os/signal; a pending interrupt cannot be arranged without
// signalling the test process, so only the goroutine count is replayed.
func c09Native(prog []instruction) {
	sym.Assume(!c09Interrupt)
	c := &Context{name: "verif", stack: make([]any, 8), bc: &ByteCode{name: "verif", instructions: prog, nextAddress: len(prog)}, output: io.Discard}
	func() {
		defer func() { _ = recover() }()
		_ = c.RunFromAddress(0)
	}()
	sym.Settle()
	sym.Assert(sym.LiveThreads() == 0, "a goroutine started by the run loop is still alive after the run loop was left")
}
