package tables

//verif:dir internal/server/tables
//verif:stub github.com/tucats/ego/internal/server/tables.initPermissions = c15InitPermissions
//verif:stub (*github.com/tucats/ego/internal/resources.ResHandle).Read = c15Read
//verif:stub (github.com/tucats/ego/internal/resources.ResHandle).Equals = c15Equals
//verif:stub github.com/tucats/ego/internal/util.ErrorResponse = c15ErrorResponse
//verif:stub github.com/tucats/ego/internal/i18n.Text = c15Text
//verif:overlay internal/zzverif/c15/templates.go <- harness:C15/templates.go.txt
//verif:bound one statement of the family in harness/C15/templates.go.txt (78 statements: a second table in every expression position of SELECT, INSERT, UPDATE and DELETE that the parser accepts, CTEs, set operations, derived tables, schema-qualified and quoted names, CREATE/DROP/ALTER of tables, views and indexes), parsed by the real parser, against every assignment of the caller's permissions: read/insert/update/delete on each of the two tables, the DSN-administrator permission and the DSN-administrator grant; SQLite dialect (quick), both dialects (thorough)
//verif:assume the permission store holds one grant per table for the caller with arbitrary permission bits (and a full grant for the CTE name c) and returns exactly the rows matching the filter (natively: a real SQLite permission store); the DSN is restricted; the caller is not a server administrator
//verif:outside statements outside the family; what the database does with the statement (views, triggers, foreign keys that touch further tables); PostgreSQL-only syntax; statement splitting in the @sql handler

import (
	"net/http"
	"os"

	"github.com/tucats/ego/internal/defs"
	"github.com/tucats/ego/internal/dsns"
	"github.com/tucats/ego/internal/resources"
	"github.com/tucats/ego/internal/router"
	"github.com/tucats/ego/internal/sqlparse"
	c15 "github.com/tucats/ego/internal/zzverif/c15"
	sym "github.com/tucats/ego/internal/zzverif/sym"
)

// c15Perm[table][operation]
var (
	c15Perm     [2][4]bool
	c15DSNGrant bool
)

func c15Op(op string) int {
	switch op {
	case defs.TableReadPermission, "read":
		return 0
	case defs.TableWritePermission, "insert":
		return 1
	case defs.TableUpdatePermission, "update":
		return 2
	default:
		return 3
	}
}

var c15Grants []*PermissionsObject

func c15InitPermissions() bool { return true }

func c15Equals(r resources.ResHandle, name string, value any) *resources.Filter {
	return &resources.Filter{Name: name, Value: value, Operator: "="}
}

func c15Read(r *resources.ResHandle, filters ...*resources.Filter) ([]any, error) {
	var out []any
	for _, g := range c15Grants {
		ok := true
		for _, f := range filters {
			v, _ := f.Value.(string)
			switch f.Name {
			case "dsn":
				ok = ok && g.DSN == v
			case "table":
				ok = ok && g.Table == v
			case "user":
				ok = ok && g.User == v
			}
		}
		if ok {
			out = append(out, g)
		}
	}
	return out, nil
}

// c15Store makes the permission store hold the grants: a model list under the
// engine, a real SQLite table natively.
func c15Store() func() {
	c15Grants = []*PermissionsObject{
		{ID: "1", User: "u", DSN: "d", Table: "t", Read: c15Perm[0][0], Write: c15Perm[0][1], Update: c15Perm[0][2], Delete: c15Perm[0][3]},
		{ID: "2", User: "u", DSN: "d", Table: "s", Read: c15Perm[1][0], Write: c15Perm[1][1], Update: c15Perm[1][2], Delete: c15Perm[1][3]},
		{ID: "3", User: "u", DSN: "d", Table: "c", Read: true, Write: true, Update: true, Delete: true},
	}
	if sym.Symbolic() {
		pHandle = &resources.ResHandle{}
		return func() {}
	}
	f, err := os.CreateTemp("", "c15-*.db")
	if err != nil {
		panic(err)
	}
	f.Close()
	h, err := resources.Open(PermissionsObject{}, "table_perms", "sqlite3://"+f.Name())
	if err == nil {
		err = h.CreateIf()
	}
	for _, g := range c15Grants {
		if err == nil {
			err = h.Insert(g)
		}
	}
	if err != nil {
		panic(err)
	}
	savedH, savedV := pHandle, pValid
	pHandle, pValid = h, true
	return func() {
		pHandle, pValid = savedH, savedV
		h.Database.Close()
		os.Remove(f.Name())
	}
}

func c15ErrorResponse(w http.ResponseWriter, id int, msg string, status int) int { return status }
func c15Text(lang, key string, args ...map[string]any) string                   { return key }

type c15Writer struct{ h http.Header }

func (w *c15Writer) Header() http.Header         { return w.h }
func (w *c15Writer) Write(b []byte) (int, error) { return len(b), nil }
func (w *c15Writer) WriteHeader(status int)      {}

type c15DSNs struct{}

func (c15DSNs) AuthDSN(session int, user, dsn string, action dsns.DSNAction) bool {
	return c15DSNGrant && action == dsns.DSNAdminAction
}
func (c15DSNs) ReadDSN(session int, user, name string, doNotLog bool) (defs.DSN, error) {
	return defs.DSN{Name: name, Restricted: true}, nil
}
func (c15DSNs) WriteDSN(session int, user string, d defs.DSN) error { return nil }
func (c15DSNs) DeleteDSN(session int, user, name string) error      { return nil }
func (c15DSNs) ListDSNS(session int, user string) (map[string]defs.DSN, error) {
	return nil, nil
}
func (c15DSNs) GrantDSN(session int, user, name string, action dsns.DSNAction, grant bool) error {
	return nil
}
func (c15DSNs) Permissions(session int, user, name string) (map[string]dsns.DSNAction, error) {
	return nil, nil
}
func (c15DSNs) RevokeAllDSN(session int, name string) error { return nil }
func (c15DSNs) Flush() error                                 { return nil }
func (c15DSNs) Close() error                                 { return nil }

func VerifC15_sqlEndpointChecksEveryTable() {
	k := sym.Choice("statement", len(c15.Statements))
	st := c15.Statements[k]
	for t := 0; t < 2; t++ {
		for op := 0; op < 4; op++ {
			c15Perm[t][op] = sym.Bool("holds")
		}
	}
	hasAdminPerm := sym.Bool("dsnAdminPermission")
	c15DSNGrant = sym.Bool("dsnAdminGrant")
	saved := dsns.DSNService
	dsns.DSNService = c15DSNs{}
	defer func() { dsns.DSNService = saved }()
	defer c15Store()()

	session := &router.Session{ID: 1, User: "u", Permissions: []string{defs.LogonPermission}}
	if hasAdminPerm {
		session.Permissions = append(session.Permissions, defs.DSNAdminPermission)
	}
	dialect := sqlparse.SQLite
	if sym.Thorough() && sym.Bool("postgresDialect") {
		dialect = sqlparse.PostgreSQL
	}
	p, err := sqlparse.New(st.SQL, dialect)
	if err != nil {
		sym.Reach("refusedByParser") // a non-administrator's unparsable statement is refused outright
		return
	}
	status := authorizeStatement(session, &c15Writer{h: http.Header{}}, "d", p)
	sym.Observe("status", status)
	if status > http.StatusOK {
		sym.Reach("denied")
		return
	}
	sym.Reach("allowed")
	for _, n := range st.Needs {
		switch n.Table {
		case "":
			sym.Assert(hasAdminPerm || c15DSNGrant, "a schema-changing statement was allowed without DSN-administrator authority: "+st.SQL)
		case "t":
			sym.Assert(c15Perm[0][c15Op(n.Perm)], "a statement was allowed although the caller lacks "+n.Perm+" permission on its target table: "+st.SQL)
		default:
			sym.Assert(c15Perm[1][c15Op(n.Perm)], "a statement was allowed although the caller lacks "+n.Perm+" permission on a table it reads: "+st.SQL)
		}
	}
}
