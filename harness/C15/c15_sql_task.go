package scripting

//verif:dir internal/server/tables/scripting
//verif:bound the same statement family and permission assignments as c15_sql_endpoint.go, through the transaction sql task's authorizeAndClassifySQL

import (
	"net/http"

	"github.com/tucats/ego/internal/defs"
	"github.com/tucats/ego/internal/dsns"
	"github.com/tucats/ego/internal/router"
	"github.com/tucats/ego/internal/server/tables/database"
	c15 "github.com/tucats/ego/internal/zzverif/c15"
	sym "github.com/tucats/ego/internal/zzverif/sym"
)

var (
	c15Perm     [2][4]bool
	c15DSNGrant bool
)

func c15Op(op string) int {
	switch op {
	case defs.TableReadPermission, "read":
		return 0
	case defs.TableWritePermission, "insert":
		return 1
	case defs.TableUpdatePermission, "update":
		return 2
	default:
		return 3
	}
}

func c15Authorized(session *router.Session, user string, table string, operations ...string) bool {
	var t int
	switch table {
	case "d.t":
		t = 0
	case "d.s":
		t = 1
	default:
		return true
	}
	for _, op := range operations {
		if !c15Perm[t][c15Op(op)] {
			return false
		}
	}
	return true
}

type c15DSNs struct{}

func (c15DSNs) AuthDSN(session int, user, dsn string, action dsns.DSNAction) bool {
	return c15DSNGrant && action == dsns.DSNAdminAction
}
func (c15DSNs) ReadDSN(session int, user, name string, doNotLog bool) (defs.DSN, error) {
	return defs.DSN{Name: name, Restricted: true}, nil
}
func (c15DSNs) WriteDSN(session int, user string, d defs.DSN) error { return nil }
func (c15DSNs) DeleteDSN(session int, user, name string) error      { return nil }
func (c15DSNs) ListDSNS(session int, user string) (map[string]defs.DSN, error) {
	return nil, nil
}
func (c15DSNs) GrantDSN(session int, user, name string, action dsns.DSNAction, grant bool) error {
	return nil
}
func (c15DSNs) Permissions(session int, user, name string) (map[string]dsns.DSNAction, error) {
	return nil, nil
}
func (c15DSNs) RevokeAllDSN(session int, name string) error { return nil }
func (c15DSNs) Flush() error                                 { return nil }
func (c15DSNs) Close() error                                 { return nil }

func VerifC15_sqlTaskChecksEveryTable() {
	k := sym.Choice("statement", len(c15.Statements))
	st := c15.Statements[k]
	for t := 0; t < 2; t++ {
		for op := 0; op < 4; op++ {
			c15Perm[t][op] = sym.Bool("holds")
		}
	}
	hasAdminPerm := sym.Bool("dsnAdminPermission")
	c15DSNGrant = sym.Bool("dsnAdminGrant")
	savedSvc, savedFn := dsns.DSNService, AuthorizedFunc
	dsns.DSNService, AuthorizedFunc = c15DSNs{}, c15Authorized
	defer func() { dsns.DSNService, AuthorizedFunc = savedSvc, savedFn }()

	session := &router.Session{ID: 1, User: "u", Permissions: []string{defs.LogonPermission}}
	if hasAdminPerm {
		session.Permissions = append(session.Permissions, defs.DSNAdminPermission)
	}
	db := &database.Database{Session: session, User: "u", DSN: "d", Provider: "sqlite3"}
	if sym.Thorough() && sym.Bool("postgresDialect") {
		db.Provider = defs.PostgresProvider
	}
	_, _, status, err := authorizeAndClassifySQL(db, st.SQL)
	sym.Observe("status", status)
	if status > http.StatusOK || err != nil {
		sym.Reach("denied")
		return
	}
	sym.Reach("allowed")
	for _, n := range st.Needs {
		switch n.Table {
		case "":
			sym.Assert(hasAdminPerm || c15DSNGrant, "a schema-changing statement was allowed without DSN-administrator authority: "+st.SQL)
		case "t":
			sym.Assert(c15Perm[0][c15Op(n.Perm)], "a statement was allowed although the caller lacks "+n.Perm+" permission on its target table: "+st.SQL)
		default:
			sym.Assert(c15Perm[1][c15Op(n.Perm)], "a statement was allowed although the caller lacks "+n.Perm+" permission on a table it reads: "+st.SQL)
		}
	}
}
