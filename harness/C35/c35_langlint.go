package main

//verif:dir tools/langlint
//verif:overlay tools/langlint/zz_verif_lang_compile.go <- tools/lang/compile.go
//verif:overlay tools/langlint/zz_verif_lang_digest.go <- tools/lang/digest.go
//verif:stub os.ReadFile = c35ReadFile
//verif:stub github.com/tucats/ego/tools/langlint.addFileToDigest = c35NoDigest
//verif:bound message file bytes over the alphabet {a b space tab CR = newline [ ] #}, len<=8 (quick) / <=10 (thorough); one language file
//verif:outside files longer than the bound, other bytes (braces, non-ASCII), several language files, the digest/up-to-date logic of the compiler
//verif:summarize github.com/tucats/ego/tools/langlint.c35InAlphabet

import (
	"bytes"
	"os"
	"strings"

	sym "github.com/tucats/ego/internal/zzverif/sym"
)

var logging bool // referenced by the overlaid tools/lang/compile.go

var c35File []byte

func c35ReadFile(name string) ([]byte, error) { return append([]byte(nil), c35File...), nil }
func c35NoDigest(name string, b []byte) error { return nil }

func c35InAlphabet(c byte) bool {
	return c == 'a' || c == 'b' || c == ' ' || c == '=' || c == '\n' || c == '[' || c == ']' || c == '#' || c == '\r' || c == '\t'
}

// c35Compile runs the real localization compiler (tools/lang compileFile) on
// data and returns the key -> message table for language "en"; ok=false when
// the compiler rejects the file (it panics on malformed lines).
func c35Compile(data []byte) (tbl map[string]string, ok bool) {
	defer func() {
		if r := recover(); r != nil {
			tbl, ok = nil, false
		}
	}()
	name := "messages_en.txt"
	if sym.Symbolic() {
		c35File = data
	} else {
		initDigest()
		f, err := os.CreateTemp("", "c35-*.txt")
		if err != nil {
			panic(err)
		}
		f.Write(data)
		f.Close()
		name = f.Name()
		defer os.Remove(name)
	}
	msgs := map[string]map[string]string{}
	compileFile(name, "en", msgs)
	tbl = map[string]string{}
	for k, langs := range msgs {
		tbl[k] = langs["en"]
	}
	return tbl, true
}

// c35EntryLines counts the lines the compiler treats as key=value entries.
func c35EntryLines(data []byte) int {
	n := 0
	for _, line := range strings.Split(string(data), "\n") {
		if strings.HasPrefix(line, "#") {
			continue
		}
		line = strings.TrimSpace(line)
		if line == "" || strings.HasPrefix(line, "[") {
			continue
		}
		n++
	}
	return n
}

func c35SameTable(a, b map[string]string) bool {
	if len(a) != len(b) {
		return false
	}
	for k, v := range a {
		w, ok := b[k]
		if !ok || w != v {
			return false
		}
	}
	return true
}

func VerifC35_formatKeepsMessageTable() {
	n := 8
	if sym.Thorough() {
		n = 10
	}
	sym.Bound("fileBytes", n)
	data := sym.Bytes("file", n)
	for i := range data {
		sym.Assume(c35InAlphabet(data[i]))
	}
	orig := append([]byte(nil), data...)
	before, valid := c35Compile(orig)
	sym.Assume(valid) // only files the compiler accepts are message files
	out, warnings, err := Format(data)
	if err != nil {
		sym.Reach("format-fails")
		return // "fails without touching it": Format itself writes nothing
	}
	sym.Reach("formatted")
	sym.Observe("out", string(out))
	sym.Known("C35-keys-differing-in-surrounding-space", c35SpaceVariantKeys(orig))
	sym.Known("C35-indented-header-line-with-equals", c35IndentedHeaderEntry(orig))
	after, ok := c35Compile(out)
	sym.Assert(ok, "the localization compiler rejects the file langlint produced")
	if ok {
		sym.Assert(c35SameTable(before, after), "langlint formatting changed the compiled message table")
	}
	out2, _, err2 := Format(out)
	sym.Assert(err2 == nil && bytes.Equal(out2, out), "langlint formatting is not idempotent")
	if c35ConflictingDuplicates(orig) {
		dup := false
		for _, w := range warnings {
			if strings.HasPrefix(w, "duplicate key") {
				dup = true
			}
		}
		sym.Assert(dup, "two entries compile to the same key but langlint reported no duplicate")
	}
}

// c35ConflictingDuplicates: two entry lines that the compiler files under the
// same full key with different messages (so which one wins matters).
func c35ConflictingDuplicates(data []byte) bool {
	type ent struct{ key, msg string }
	var ents []ent
	prefix := ""
	for _, line := range strings.Split(string(data), "\n") {
		if strings.HasPrefix(line, "#") {
			continue
		}
		line = strings.TrimSpace(line)
		if line == "" {
			continue
		}
		if strings.HasPrefix(line, "[") {
			if len(line) >= 2 {
				prefix = line[1 : len(line)-1]
			}
			continue
		}
		i := strings.Index(line, "=")
		if i < 0 {
			continue
		}
		key := strings.TrimSpace(line[:i])
		if prefix != "" {
			key = prefix + "." + key
		}
		ents = append(ents, ent{key, line[i+1:]})
	}
	for i := range ents {
		for j := i + 1; j < len(ents); j++ {
			if ents[i].key == ents[j].key && ents[i].msg != ents[j].msg {
				return true
			}
		}
	}
	return false
}

// c35SpaceVariantKeys: two entry lines whose keys are equal after trimming but
// different before (the compiler trims keys, langlint sorts and de-duplicates
// them untrimmed).
func c35SpaceVariantKeys(data []byte) bool {
	var keys []string
	for _, line := range strings.Split(string(data), "\n") {
		if strings.HasPrefix(line, "#") {
			continue
		}
		t := strings.TrimSpace(line)
		if t == "" {
			continue
		}
		if strings.HasPrefix(t, "[") {
			keys = nil
			continue
		}
		i := strings.Index(line, "=")
		if i < 0 {
			continue
		}
		keys = append(keys, line[:i])
	}
	for i := range keys {
		for j := i + 1; j < len(keys); j++ {
			if keys[i] != keys[j] && strings.TrimSpace(keys[i]) == strings.TrimSpace(keys[j]) {
				return true
			}
		}
	}
	return false
}

// c35IndentedHeaderEntry: a line that langlint reads as an entry (it does not
// start with '[') but the compiler, which trims first, reads as a header.
func c35IndentedHeaderEntry(data []byte) bool {
	for _, line := range strings.Split(string(data), "\n") {
		t := strings.TrimSpace(line)
		if t != line && strings.HasPrefix(t, "[") && !strings.HasPrefix(line, "#") {
			return true
		}
	}
	return false
}

// VerifC35_largeSectionKeepsDuplicateWinner: a section with many entries, one
// key defined twice with different values at arbitrary positions. (sort.Slice
// is not stable: the engine puts equal elements in an arbitrary order; the Go
// library only does so for more than 12 elements, which is why the section is
// this large: the counterexample then also reproduces natively.)
func VerifC35_largeSectionKeepsDuplicateWinner() {
	keys := []string{"n", "m", "l", "k", "j", "i", "h", "g", "f", "e", "d", "c", "b", "z"}
	if sym.Choice("order", 2) == 1 {
		keys = []string{"b", "c", "d", "e", "f", "g", "h", "i", "j", "k", "l", "m", "n", "z"}
	}
	dupKey := []string{"a", "h", "zz"}[sym.Choice("dupKey", 3)]
	p1 := sym.Choice("firstAt", 4) * 4 // 0, 4, 8, 12
	p2 := 14
	var lines []string
	for i, k := range keys {
		if i == p1 {
			lines = append(lines, dupKey+"=old")
		}
		lines = append(lines, k+"=v")
	}
	_ = p2
	lines = append(lines, dupKey+"=new")
	data := []byte("[s]\n" + strings.Join(lines, "\n") + "\n")
	before, valid := c35Compile(data)
	sym.Assume(valid)
	out, _, err := Format(data)
	sym.Assert(err == nil, "Format rejected a well-formed section")
	if err != nil {
		return
	}
	sym.Reach("formatted-large")
	after, ok := c35Compile(out)
	sym.Assert(ok && c35SameTable(before, after), "langlint formatting changed the compiled message table")
}
