package assets

//verif:dir internal/server/assets
//verif:stub github.com/tucats/ego/internal/util.ErrorResponse = c39ErrorResponse
//verif:stub github.com/tucats/ego/internal/i18n.Text = c39Text
//verif:stub github.com/tucats/ego/internal/cli/settings.Get = c39Get
//verif:stub github.com/tucats/ego/internal/cli/settings.GetBool = c39GetBool
//verif:stub github.com/tucats/ego/internal/cli/settings.GetInt = c39GetInt
//verif:stub os.Stat = c39Stat
//verif:stub os.Open = c39Open
//verif:stub os.ReadFile = c39ReadFile
//verif:stub (*os.File).ReadAt = c39ReadAt
//verif:stub (*os.File).Close = c39Close
//verif:bound Range header "bytes=" + up to 4 arbitrary bytes (quick) / 6 (thorough), and a fully arbitrary header of up to 3 bytes; one asset file of 6 known bytes (and a second one whose name differs by a leading dot, for two-request sequences over 7 spellings of the two); request path fixed to /x.txt, then (path harness) arbitrary paths (with or without a leading slash) of up to 5 bytes over {/ . a x l}, asset root /l with a sibling file /la
//verif:assume model file system: the file <root>/x.txt exists, and next to the root a file whose name extends the root's name; Stat/Open/ReadFile of any other name fail; ReadAt returns the bytes available from the offset and io.EOF when short
//verif:outside Markdown rendering, JS/CSS minification on load (C33/C34), the asset cache eviction policy, symbolic file contents/sizes beyond the one file

import (
	"errors"
	"io"
	"io/fs"
	"net/http"
	"net/url"
	"os"
	"path/filepath"
	"strconv"
	"strings"
	"time"

	"github.com/tucats/ego/internal/cli/settings"
	"github.com/tucats/ego/internal/defs"
	"github.com/tucats/ego/internal/router"
	sym "github.com/tucats/ego/internal/zzverif/sym"
)

const c39Content = "abcdef"

// a second asset whose name differs from the first by a leading dot
const c39Content2 = "uvwxyz"

var c39Root = "/l"

// c39Outside is a file next to the asset root whose name extends the root's
// name (the classic prefix-check trap); it must never be served.
var c39Outside = "/la"

const c39Secret = "SECRET"

type c39Writer struct {
	hdr    http.Header
	status int
	body   []byte
	isErr  bool
}

func (w *c39Writer) Header() http.Header        { return w.hdr }
func (w *c39Writer) WriteHeader(s int)          { w.status = s }
func (w *c39Writer) Write(b []byte) (int, error) { w.body = append(w.body, b...); return len(b), nil }

var c39Opened []string

func c39ErrorResponse(w http.ResponseWriter, id int, msg string, status int) int {
	cw := w.(*c39Writer)
	cw.status, cw.isErr = status, true
	return status
}
func c39Text(lang, key string, args ...map[string]any) string { return key }
func c39Get(key string) string {
	if key == defs.EgoLibPathSetting {
		return c39Root
	}
	return ""
}
func c39GetBool(key string) bool { return false }
func c39GetInt(key string) int   { return 0 }

type c39Info struct{}

func (c39Info) Name() string       { return "x.txt" }
func (c39Info) Size() int64        { return int64(len(c39Content)) }
func (c39Info) Mode() fs.FileMode  { return 0o644 }
func (c39Info) ModTime() time.Time { return time.Time{} }
func (c39Info) IsDir() bool        { return false }
func (c39Info) Sys() any           { return nil }

var errC39NotFound = errors.New("no such file")

func c39Exists(name string) bool {
	c39Opened = append(c39Opened, name)
	return name == c39Root+"/x.txt" || name == c39Root+"/.x.txt" || name == c39Outside
}

func c39ContentOf(name string) string {
	if name == c39Outside {
		return c39Secret
	}
	if name == c39Root+"/.x.txt" {
		return c39Content2
	}
	return c39Content
}

func c39Stat(name string) (os.FileInfo, error) {
	if !c39Exists(name) {
		return nil, errC39NotFound
	}
	return c39Info{}, nil
}
func c39Open(name string) (*os.File, error) {
	if !c39Exists(name) {
		return nil, errC39NotFound
	}
	return new(os.File), nil
}
func c39ReadFile(name string) ([]byte, error) {
	if !c39Exists(name) {
		return nil, errC39NotFound
	}
	return []byte(c39ContentOf(name)), nil
}
func c39ReadAt(f *os.File, b []byte, off int64) (int, error) {
	if off < 0 {
		return 0, errors.New("negative offset")
	}
	if off >= int64(len(c39Content)) {
		return 0, io.EOF
	}
	n := copy(b, c39Content[off:])
	if n < len(b) {
		return n, io.EOF
	}
	return n, nil
}
func c39Close(f *os.File) error { return nil }

// c39Setup prepares the environment: model FS under the engine, a real
// temporary asset root natively.
func c39Setup() func() {
	c39Opened = nil
	AssetCache = nil
	if sym.Symbolic() {
		return func() {}
	}
	dir, err := os.MkdirTemp("", "c39-")
	if err != nil {
		panic(err)
	}
	root := filepath.Join(dir, "l")
	os.MkdirAll(root, 0o755)
	os.WriteFile(filepath.Join(root, "x.txt"), []byte(c39Content), 0o644)
	os.WriteFile(filepath.Join(root, ".x.txt"), []byte(c39Content2), 0o644)
	os.WriteFile(filepath.Join(dir, "la"), []byte(c39Secret), 0o644)
	c39Root = root
	settings.SetDefault(defs.EgoLibPathSetting, root)
	return func() { os.RemoveAll(dir) }
}

func c39Request(path string, rangeHeader *string) (*c39Writer, int) {
	w := &c39Writer{hdr: http.Header{}}
	r := &http.Request{Method: "GET", URL: &url.URL{Path: path}, Header: http.Header{}}
	if rangeHeader != nil {
		r.Header["Range"] = []string{*rangeHeader}
	}
	s := &router.Session{ID: 1, Language: "en"}
	st := AssetsHandler(s, w, r)
	return w, st
}

// c39CheckResponse: an error status, or the whole file, or a byte range whose
// Content-Range header is consistent with the body actually sent.
func c39CheckResponse(w *c39Writer, status int) {
	if w.isErr || status >= 400 {
		return
	}
	sym.Reach("served")
	body := string(w.body)
	switch status {
	case http.StatusOK:
		sym.Assert(body == c39Content, "200 response does not carry the exact bytes of the asset")
	case http.StatusPartialContent:
		cr := w.hdr["Content-Range"]
		sym.Assert(len(cr) == 1, "206 without a Content-Range header")
		if len(cr) != 1 {
			return
		}
		// "bytes a-b/size"
		ok := strings.HasPrefix(cr[0], "bytes ")
		rest := strings.TrimPrefix(cr[0], "bytes ")
		dash, slash := strings.Index(rest, "-"), strings.LastIndex(rest, "/")
		ok = ok && dash > 0 && slash > dash
		sym.Assert(ok, "malformed Content-Range")
		if !ok {
			return
		}
		a, e1 := strconv.Atoi(rest[:dash])
		b, e2 := strconv.Atoi(rest[dash+1 : slash])
		size, e3 := strconv.Atoi(rest[slash+1:])
		sym.Assert(e1 == nil && e2 == nil && e3 == nil, "non-numeric Content-Range")
		sym.Assert(size == len(c39Content), "Content-Range reports the wrong total size")
		good := a >= 0 && a <= b && b < len(c39Content)
		sym.Assert(good, "Content-Range is not a range inside the asset")
		if good {
			sym.Assert(body == c39Content[a:b+1], "206 body is not the byte range its Content-Range header announces")
		}
	default:
		sym.Assert(false, "unexpected success status")
	}
}

// VerifC39_rangeHeader: "bytes=" followed by arbitrary bytes.
func VerifC39_rangeHeader() {
	n := 4
	if sym.Thorough() {
		n = 6
	}
	sym.Bound("rangeSuffixBytes", n)
	cleanup := c39Setup()
	defer cleanup()
	h := "bytes=" + sym.String("range", n)
	sym.Known("C39-range-without-dash-panics", !strings.Contains(strings.ReplaceAll(h, "bytes=", ""), "-"))
	sym.Known("C39-range-start-beyond-size-panics", c39StartBeyond(h))
	w, st := c39Request("/x.txt", &h)
	sym.Reach("handled")
	sym.Observe("status", st)
	c39CheckResponse(w, st)
	// when the header is the documented form, the range served is the one asked for
	if a, b, ok := c39ParseDocumented(h); ok && st == http.StatusPartialContent {
		if b >= len(c39Content) {
			b = len(c39Content) - 1
		}
		if a <= b {
			sym.Assert(string(w.body) == c39Content[a:b+1], "the served range is not the requested one")
		}
	}
}

// VerifC39_arbitraryHeader: a fully arbitrary short Range header value.
func VerifC39_arbitraryHeader() {
	cleanup := c39Setup()
	defer cleanup()
	h := sym.String("range", 3)
	sym.Known("C39-range-without-dash-panics", !strings.Contains(strings.ReplaceAll(h, "bytes=", ""), "-"))
	w, st := c39Request("/x.txt", &h)
	sym.Reach("handled")
	c39CheckResponse(w, st)
}

// VerifC39_pathConfinement: whatever the path, only files under the root are opened.
func VerifC39_pathConfinement() {
	cleanup := c39Setup()
	defer cleanup()
	p := sym.String("path", 5)
	for i := 0; i < len(p); i++ {
		sym.Assume(p[i] == '/' || p[i] == '.' || p[i] == 'a' || p[i] == 'x' || p[i] == 'l')
	}
	w, st := c39Request(p, nil)
	sym.Reach("handled")
	// (Which names were merely probed is not observable from outside the
	// process, so only what is served is asserted.)
	if !w.isErr && st == http.StatusOK {
		sym.Assert(string(w.body) == c39Content || string(w.body) == c39Content2, "content served that is not an asset under the root")
	}
	sym.Assert(!strings.Contains(string(w.body), c39Secret), "the content of a file outside the asset root was served")
}

// VerifC39_eachRequestGetsItsOwnFile: two requests in a row (the asset cache
// lives across them) for spellings of two files whose names differ by a
// leading dot: each answer carries the bytes of the file its own path names.
func VerifC39_eachRequestGetsItsOwnFile() {
	cleanup := c39Setup()
	defer cleanup()
	spellings := []string{"/x.txt", "/.x.txt", "//x.txt", "/./x.txt", "x.txt", ".x.txt", "/a/../.x.txt"}
	want := []string{c39Content, c39Content2, c39Content, c39Content, c39Content, c39Content2, c39Content2}
	for i := 0; i < 2; i++ {
		k := sym.Choice("spelling", len(spellings))
		w, st := c39Request(spellings[k], nil)
		sym.Reach("answered")
		if !w.isErr && st == http.StatusOK {
			sym.Assert(string(w.body) == want[k], "a request was answered with the bytes of another file (stale or colliding cache entry)")
		}
		sym.Assert(!strings.Contains(string(w.body), c39Secret), "the content of a file outside the asset root was served")
	}
}

// c39ParseDocumented recognises bytes=<digits>-<digits> and bytes=<digits>-.
func c39ParseDocumented(h string) (a, b int, ok bool) {
	if !strings.HasPrefix(h, "bytes=") {
		return
	}
	rest := h[len("bytes="):]
	i := strings.Index(rest, "-")
	if i <= 0 || i > 2 {
		return
	}
	for k := 0; k < len(rest); k++ {
		if k != i && (rest[k] < '0' || rest[k] > '9') {
			return
		}
	}
	a, _ = strconv.Atoi(rest[:i])
	b = 1 << 30
	if i+1 < len(rest) {
		if len(rest)-i-1 > 2 {
			return
		}
		b, _ = strconv.Atoi(rest[i+1:])
	}
	return a, b, true
}

// c39StartBeyond: documented form whose start is at or past the end of the file.
func c39StartBeyond(h string) bool {
	a, _, ok := c39ParseDocumented(h)
	return ok && a >= len(c39Content)
}
