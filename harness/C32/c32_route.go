package router

//verif:dir internal/router
//verif:bound route tables of 2 routes drawn from 10 endpoint shapes (including trailing-slash twins) x {GET, ANY} with request paths of arbitrary bytes over {/ a b c}, len<=4 (quick) / <=5 (thorough); thorough also 3 routes with paths of len<=2; route tables of 2 routes drawn from 5 three-segment shapes with paths of len<=5; method GET; the iteration order of the route map is arbitrary and independent in the two lookups
//verif:outside the concrete server route table (its routes are instances of these shapes), route locking, paths longer than the bound

import (
	"net/http"
	"strings"

	sym "github.com/tucats/ego/internal/zzverif/sym"
)

var c32Endpoints = []string{"/a", "/a/b", "/a/{{x}}", "/{{x}}/b", "/{{x}}/{{y}}", "/a/{{y...}}", "/{{x}}", "/a/b/{{x}}", "/a/{{x}}/", "/a/"}

func c32Handler(session *Session, w http.ResponseWriter, r *http.Request) int { return 200 }

// c32Matches: reference matcher for request paths made of non-empty segments
// (no empty segment, no trailing slash): a literal segment matches itself,
// {{x}} exactly one segment, {{y...}} the (possibly empty) rest.
func c32Matches(endpoint string, segs []string) bool {
	parts := strings.Split(strings.TrimPrefix(endpoint, "/"), "/")
	for i, p := range parts {
		if strings.HasPrefix(p, "{{") && strings.HasSuffix(p, "...}}") {
			return true
		}
		if i >= len(segs) {
			return false
		}
		if strings.HasPrefix(p, "{{") {
			continue
		}
		if p != segs[i] {
			return false
		}
	}
	return len(parts) == len(segs)
}

func VerifC32_deterministicAndMostSpecific() {
	nRoutes, nPath := 2, 4
	if sym.Thorough() {
		// deeper in one direction at a time (three routes with paths of 5 bytes,
		// and with 3, did not finish within the thorough budget)
		if sym.Bool("threeRoutes") {
			nRoutes, nPath = 3, 2
		} else {
			nPath = 5
		}
	}
	c32Check(c32Endpoints, nRoutes, nPath)
}

// VerifC32_threeSegmentRoutes: the same over routes of three segments, where a
// route with MORE variables can sort before one with fewer.
func VerifC32_threeSegmentRoutes() {
	c32Check([]string{"/a/{{x}}/{{y}}", "/{{x}}/b/c", "/a/b/{{x}}", "/{{x}}/{{y}}/c", "/a/b/c"}, 2, 5)
}

func c32Check(endpoints []string, nRoutes, nPath int) {
	sym.Bound("routes", nRoutes)
	sym.Bound("pathBytes", nPath)
	m := NewRouter("verif")
	var eps []string
	var methods []string
	for i := 0; i < nRoutes; i++ {
		ep := endpoints[sym.Choice("endpoint", len(endpoints))]
		method := []string{"GET", AnyMethod}[sym.Choice("method", 2)]
		for j := range eps {
			sym.Assume(!(eps[j] == ep && methods[j] == method)) // distinct selectors
		}
		eps, methods = append(eps, ep), append(methods, method)
		m.New(ep, c32Handler, method)
	}
	path := "/" + sym.String("path", nPath)
	for i := 1; i < len(path); i++ {
		sym.Assume(path[i] == '/' || path[i] == 'a' || path[i] == 'b' || path[i] == 'c')
	}
	sym.NondetMapOrder()
	sym.Known("C32-tie-broken-by-map-order", c32Tie(eps, path))
	r1, s1 := m.FindRoute("GET", path, false)
	// Under the engine the map order of each lookup is an arbitrary choice, so
	// two lookups cover every pair of orders. Natively Go randomises it; repeat.
	iters := 1
	if !sym.Symbolic() {
		iters = 400
	}
	for k := 0; k < iters; k++ {
		r2, s2 := m.FindRoute("GET", path, false)
		if r1 != r2 || s1 != s2 {
			sym.Assert(false, "the route chosen depends on the iteration order of the route table")
			break
		}
	}
	sym.Reach("looked-up")

	// most specific: among routes that certainly match, fewer variables wins
	clean := len(path) > 1 && !strings.HasSuffix(path, "/") && !strings.Contains(path, "//")
	if clean && r1 != nil {
		segs := strings.Split(path[1:], "/")
		for i := range eps {
			if c32Matches(eps[i], segs) && c32Matches(r1.endpoint, segs) {
				sym.Assert(strings.Count(r1.endpoint, "{{") <= strings.Count(eps[i], "{{"), "a matching route with fewer path variables was passed over")
			}
		}
	}
}

// c32Tie: two routes with the same number of variables both match.
func c32Tie(eps []string, path string) bool {
	if len(path) < 2 {
		return false
	}
	segs := strings.Split(strings.TrimSuffix(path[1:], "/"), "/")
	n := 0
	for i := range eps {
		for j := i + 1; j < len(eps); j++ {
			if c32Matches(eps[i], segs) && c32Matches(eps[j], segs) && strings.Count(eps[i], "{{") == strings.Count(eps[j], "{{") {
				n++
			}
		}
	}
	return n > 0
}
