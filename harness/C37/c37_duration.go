package util

//verif:dir internal/util
//verif:bound parse direction (solver): texts [-]<H>h[ ]<M>m[ ]<S>s with each unit present or absent, each number 1-2 symbolic decimal digits (any digit values, also out-of-range ones like 99m), each separating space present or absent
//verif:note the day-suffixed parse path re-renders its numbers with Sprintf("%dh%dm%ds%dms") and re-parses them: with symbolic digits this composes 64-bit division/remainder by 10 with multiplication by 1e9, on which z3 4.8.12 answered unknown at 10 s per query (317 of 8921 queries, single-digit numbers); that path is therefore exercised on the boundary grid only
//verif:bound print direction: FormatDuration(d,true) for every d built from sign x days{0,1,2,10,99} x hours{0,1,9,10,23} x minutes{0,1,9,10,59} x seconds{0,1,59} (a finite boundary grid, enumerated exhaustively; the symbolic-number version needs 64-bit division by 3.6e12 and was unknown in z3 at 10 s per query)
//verif:outside sub-second durations, fractional units, the non-extended format, print direction outside the grid

import (
	"time"

	sym "github.com/tucats/ego/internal/zzverif/sym"
)

// c37Number returns 1..maxDigits symbolic decimal digits as text, and their value.
func c37Number(name string, maxDigits int) (string, int64) {
	n := 1 + sym.Choice(name+".digits", maxDigits)
	b := make([]byte, n)
	var v int64
	for i := 0; i < n; i++ {
		c := sym.Byte(name)
		sym.Assume(c >= '0' && c <= '9')
		b[i] = c
		v = v*10 + int64(c) - '0'
	}
	return string(b), v
}

// VerifC37_spacedFormsAccepted: the documented spaced spelling without a day
// part ("2h 3m 4s", also without the spaces, optionally negative) parses and
// denotes sign * (H hours + M minutes + S seconds), for arbitrary digits.
func VerifC37_spacedFormsAccepted() {
	maxDigits := 2
	sym.Bound("digitsPerUnit", maxDigits)
	neg := sym.Bool("neg")
	hasH, hasM, hasS := sym.Bool("hasH"), sym.Bool("hasM"), sym.Bool("hasS")
	sym.Assume(hasH || hasM || hasS)
	text := ""
	if neg {
		text = "-"
	}
	var want time.Duration
	units, spaces := 0, 0
	add := func(present bool, name string, suffix string, unit time.Duration) {
		if !present {
			return
		}
		t, v := c37Number(name, maxDigits)
		if units > 0 && sym.Bool("space") {
			text += " "
			spaces++
		}
		text += t + suffix
		want += time.Duration(v) * unit
		units++
	}
	add(hasH, "H", "h", time.Hour)
	add(hasM, "M", "m", time.Minute)
	add(hasS, "S", "s", time.Second)
	if neg {
		want = -want
	}
	sym.Known("C37-spaced-form-without-days", spaces > 0)
	sym.Reach("built")
	sym.Observe("text", text)
	got, err := ParseDuration(text)
	sym.Assert(err == nil, "ParseDuration rejects a documented spaced duration")
	if err == nil {
		sym.Assert(got == want, "ParseDuration gives a documented spaced duration the wrong value")
	}
}

// VerifC37_printedDurationsReadBack: ParseDuration(FormatDuration(d,true)) == d
// on the boundary grid (see the bound above).
func VerifC37_printedDurationsReadBack() {
	days := []int64{0, 1, 2, 10, 99}[sym.Choice("days", 5)]
	h := []int64{0, 1, 9, 10, 23}[sym.Choice("hours", 5)]
	m := []int64{0, 1, 9, 10, 59}[sym.Choice("minutes", 5)]
	s := []int64{0, 1, 59}[sym.Choice("seconds", 3)]
	neg := sym.Choice("neg", 2) == 1
	sym.Assume(days+h+m+s > 0)
	d := time.Duration(((days*24+h)*60+m)*60+s) * time.Second
	if neg {
		d = -d
	}
	parts := 0
	for _, x := range []int64{days, h, m, s} {
		if x != 0 {
			parts++
		}
	}
	sym.Known("C37-spaced-form-without-days", days == 0 && parts >= 2)
	sym.Known("C37-negative-with-days", neg && days != 0 && parts >= 2)
	text := FormatDuration(d, true)
	sym.Reach("formatted")
	sym.Observe("text", text)
	got, err := ParseDuration(text)
	sym.Assert(err == nil, "ParseDuration rejects a duration printed by FormatDuration(d,true)")
	if err == nil {
		sym.Assert(got == d, "ParseDuration(FormatDuration(d,true)) denotes a different duration")
	}
}
