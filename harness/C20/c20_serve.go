package router

//verif:dir internal/router
//verif:stub (*github.com/tucats/ego/internal/router.Session).Authenticate = c20Authenticate
//verif:stub github.com/tucats/ego/internal/router.LogRequest = c20LogRequest
//verif:stub github.com/tucats/ego/internal/router.LogResponse = c20LogResponse
//verif:stub github.com/tucats/ego/internal/router.negotiateLanguage = c20Language
//verif:stub github.com/tucats/ego/internal/router.addSecurityHeaders = c20NoHeaders
//verif:stub github.com/tucats/ego/internal/router.startRateLimitScan = c20NoScan
//verif:stub github.com/tucats/ego/internal/util.ErrorResponse = c20ErrorResponse
//verif:stub github.com/tucats/ego/internal/util.AcceptsGzip = c20AcceptsGzip
//verif:stub github.com/tucats/ego/internal/i18n.Text = c20Text
//verif:stub github.com/tucats/ego/internal/server/auth.GetPermission = c20GetPermission
//verif:stub github.com/tucats/ego/internal/server/auth.GetPermissions = c20GetPermissions
//verif:stub github.com/tucats/ego/internal/cli/settings.GetInt = c20GetInt
//verif:stub github.com/tucats/ego/internal/cli/settings.Get = c20Get
//verif:stub github.com/tucats/ego/internal/util/validate.Validate = c20Validate
//verif:stub net/http.MaxBytesReader = c20MaxBytes
//verif:bound one route declared by a sequence of up to 3 builder calls from {Authentication(b), Permissions(p | p,q), LightWeight(b), CanAuthenticate(b), ValidateUsing(v)} with arbitrary arguments, then one request with or without a (2-byte) body whose payload validation succeeds or fails arbitrarily; the outcome of credential processing is arbitrary (authenticated or not, administrator or not, user name, resolved permission list, locked out), as is every answer of the permission store
//verif:assume Session.Authenticate is replaced by an arbitrary outcome (its internals are properties C21, C22, C24, C25); the request has no query and no Accept header; the body validator (util/validate) is replaced by an arbitrary verdict
//verif:outside the concrete server route table (each declaration there is one of these builder sequences, provided it uses at most 3 of these calls); media-type and parameter validation; the body validator itself; redirects

import (
	"bytes"
	"encoding/base64"
	"errors"
	"io"
	"net/http"
	"net/url"

	"github.com/tucats/ego/internal/defs"
	"github.com/tucats/ego/internal/server/auth"
	"github.com/tucats/ego/internal/util/validate"

	sym "github.com/tucats/ego/internal/zzverif/sym"
)

type c20Writer struct {
	hdr    http.Header
	status int
}

func (w *c20Writer) Header() http.Header         { return w.hdr }
func (w *c20Writer) WriteHeader(s int)           { w.status = s }
func (w *c20Writer) Write(b []byte) (int, error) { return len(b), nil }

var (
	c20Outcome struct {
		authenticated, admin, lockedOut bool
		resolved                        []string
	}
	c20Store   map[string]bool // the permission store's answers, fixed for the request
	c20Ran     bool
	c20Session *Session
)

func c20Authenticate(s *Session, r *http.Request) *Session {
	s.Authenticated = c20Outcome.authenticated
	s.LockedOut = c20Outcome.lockedOut
	if s.Authenticated {
		s.User = "u"
		s.Admin = c20Outcome.admin
		s.Permissions = c20Outcome.resolved
	}
	return s
}
func c20LogRequest(r *http.Request, id int)            {}
func c20LogResponse(w http.ResponseWriter, id int)     {}
func c20Language(r *http.Request) string               { return "en" }
func c20NoHeaders(w http.ResponseWriter, r *http.Request) {}
func c20NoScan()                                       {}
func c20AcceptsGzip(r *http.Request) bool              { return false }
func c20Text(lang, key string, args ...map[string]any) string { return key }
func c20GetInt(key string) int                         { return 0 }
func c20Get(key string) string                         { return "" }
func c20ErrorResponse(w http.ResponseWriter, id int, msg string, status int) int {
	w.(*c20Writer).status = status
	return status
}
var c20BodyValid bool

func c20Validate(data []byte, kind string) error {
	if c20BodyValid {
		return nil
	}
	return errors.New("payload rejected")
}
func c20MaxBytes(w http.ResponseWriter, r io.ReadCloser, n int64) io.ReadCloser { return r }

// ---- native twin: the real credential processing with a real in-memory user store

type c20Users struct{ u defs.User }

func (s *c20Users) ReadUser(session int, name string, doNotLog bool) (defs.User, error) {
	if name == s.u.Name {
		return s.u, nil
	}
	return defs.User{}, errors.New("no such user")
}
func (s *c20Users) WriteUser(session int, u defs.User) error     { s.u = u; return nil }
func (s *c20Users) DeleteUser(session int, name string) error    { return nil }
func (s *c20Users) ListUsers(suppress bool) map[string]defs.User { return map[string]defs.User{s.u.Name: s.u} }
func (s *c20Users) Flush() error                                 { return nil }
func (s *c20Users) Close() error                                 { return nil }

type c20Required struct {
	Needed int `json:"needed" validate:"required"`
}

// c20NativeSetup arranges the real world so that credential processing has the
// outcome the vector describes (locked-out sessions cannot be arranged).
func c20NativeSetup(r *http.Request) {
	sym.Assume(!c20Outcome.lockedOut)
	perms := []string{defs.LogonPermission}
	if c20Outcome.admin {
		perms = append(perms, defs.RootPermission)
	}
	for _, p := range []string{"p", "q"} {
		if c20Store[p] {
			perms = append(perms, p)
		}
	}
	hash, err := auth.HashPassword("pw")
	if err != nil {
		panic(err)
	}
	auth.AuthService = &c20Users{u: defs.User{Name: "u", Password: hash, Permissions: perms}}
	if c20Outcome.authenticated {
		r.Header.Set("Authorization", "Basic "+base64.StdEncoding.EncodeToString([]byte("u:pw")))
	}
	if c20BodyValid {
		_ = validate.Define("v", struct{}{})
	} else {
		_ = validate.Define("v", c20Required{})
	}
}

func c20GetPermission(session int, user, privilege string) bool {
	if user != "u" {
		return false
	}
	return c20Store[privilege]
}
func c20GetPermissions(session int, user string) []string {
	var out []string
	for _, p := range []string{"p", "q"} {
		if user == "u" && c20Store[p] {
			out = append(out, p)
		}
	}
	return out
}

func c20Handler(session *Session, w http.ResponseWriter, r *http.Request) int {
	c20Ran = true
	c20Session = session
	return http.StatusOK
}

func VerifC20_handlerRunsOnlyForAuthorizedRequests() {
	calls := 3
	sym.Bound("builderCalls", calls)
	m := NewRouter("verif")
	route := m.New("/x", c20Handler, "GET")
	required := map[string]bool{}
	requiresAuth, specified := false, false
	n := sym.Choice("calls", calls+1)
	for i := 0; i < n; i++ {
		switch sym.Choice("builder", 5) {
		case 4:
			route.ValidateUsing("v")
		case 0:
			b := sym.Bool("arg")
			route.Authentication(b)
			requiresAuth, specified = b, true
		case 1:
			if sym.Bool("two") {
				route.Permissions("p", "q")
				required["p"], required["q"] = true, true
			} else {
				route.Permissions("p")
				required["p"] = true
			}
			requiresAuth, specified = true, true
		case 2:
			b := sym.Bool("arg")
			route.LightWeight(b)
			// LightWeight's effect on authentication is not documented: after it
			// the declaration no longer says unambiguously whether authentication
			// is required, unless a later call says so
			specified = false
		case 3:
			route.CanAuthenticate(sym.Bool("arg"))
		}
	}
	// credential outcome and permission store
	c20Outcome.authenticated = sym.Bool("authenticated")
	c20Outcome.admin = sym.Bool("admin")
	c20Outcome.lockedOut = sym.Bool("lockedOut")
	c20Outcome.resolved = nil
	c20Store = map[string]bool{"p": sym.Bool("storeHasP"), "q": sym.Bool("storeHasQ")}
	if sym.Bool("sessionResolvesPermissions") {
		// the session carries the user's permissions (token/JWT logins): same truth as the store
		for _, p := range []string{"p", "q"} {
			if c20Store[p] {
				c20Outcome.resolved = append(c20Outcome.resolved, p)
			}
		}
	}
	c20Ran, c20Session = false, nil
	w := &c20Writer{hdr: http.Header{}}
	r := &http.Request{Method: "GET", URL: &url.URL{Path: "/x"}, Header: http.Header{}}
	if sym.Bool("hasBody") {
		r.Body = io.NopCloser(bytes.NewReader([]byte("{}")))
	}
	c20BodyValid = sym.Bool("bodyValid")
	if !sym.Symbolic() {
		c20NativeSetup(r)
	}
	sym.Known("C20-lightweight-route-skips-authentication", c20LightThenAuth(route))
	m.ServeHTTP(w, r)
	sym.Reach("served")
	if !c20Ran {
		return
	}
	sym.Reach("handler-ran")
	if specified && requiresAuth {
		sym.Assert(c20Outcome.authenticated, "the handler of a route that requires authentication ran for an unauthenticated request")
	}
	for p := range required {
		granted := c20Outcome.authenticated && (c20Outcome.admin || c20Store[p])
		sym.Assert(granted, "the handler ran although a required permission is not held by the authenticated identity")
	}
}

// c20LightThenAuth: the route is lightweight and yet requires authentication
// or permissions (the authentication step is skipped for lightweight routes).
func c20LightThenAuth(r *Route) bool {
	return r.lightweight && (r.mustAuthenticate || len(r.requiredPermissions) > 0)
}
