package router

//verif:dir internal/router
//verif:stub (*github.com/tucats/ego/internal/router.Session).Authenticate = c20Authenticate
//verif:stub github.com/tucats/ego/internal/router.LogRequest = c20LogRequest
//verif:stub github.com/tucats/ego/internal/router.LogResponse = c20LogResponse
//verif:stub github.com/tucats/ego/internal/router.negotiateLanguage = c20Language
//verif:stub github.com/tucats/ego/internal/router.addSecurityHeaders = c20NoHeaders
//verif:stub github.com/tucats/ego/internal/router.startRateLimitScan = c20NoScan
//verif:stub github.com/tucats/ego/internal/util.ErrorResponse = c20ErrorResponse
//verif:stub github.com/tucats/ego/internal/util.AcceptsGzip = c20AcceptsGzip
//verif:stub github.com/tucats/ego/internal/i18n.Text = c20Text
//verif:stub github.com/tucats/ego/internal/server/auth.GetPermission = c20GetPermission
//verif:stub github.com/tucats/ego/internal/server/auth.GetPermissions = c20GetPermissions
//verif:stub github.com/tucats/ego/internal/cli/settings.GetInt = c20GetInt
//verif:stub github.com/tucats/ego/internal/cli/settings.Get = c20Get
//verif:bound one route declared by a sequence of up to 3 builder calls from {Authentication(b), Permissions(p | p,q), LightWeight(b), CanAuthenticate(b)} with arbitrary arguments, then one GET request; the outcome of credential processing is arbitrary (authenticated or not, administrator or not, user name, resolved permission list, locked out), as is every answer of the permission store
//verif:assume Session.Authenticate is replaced by an arbitrary outcome (its internals are properties C21, C22, C24, C25); the request has no body, no query and no Accept header
//verif:outside the concrete server route table (each declaration there is one of these builder sequences, provided it uses at most 3 of these calls); media-type, parameter and body validation; redirects

import (
	"net/http"
	"net/url"

	sym "github.com/tucats/ego/internal/zzverif/sym"
)

type c20Writer struct {
	hdr    http.Header
	status int
}

func (w *c20Writer) Header() http.Header         { return w.hdr }
func (w *c20Writer) WriteHeader(s int)           { w.status = s }
func (w *c20Writer) Write(b []byte) (int, error) { return len(b), nil }

var (
	c20Outcome struct {
		authenticated, admin, lockedOut bool
		resolved                        []string
	}
	c20Store   map[string]bool // the permission store's answers, fixed for the request
	c20Ran     bool
	c20Session *Session
)

func c20Authenticate(s *Session, r *http.Request) *Session {
	s.Authenticated = c20Outcome.authenticated
	s.LockedOut = c20Outcome.lockedOut
	if s.Authenticated {
		s.User = "u"
		s.Admin = c20Outcome.admin
		s.Permissions = c20Outcome.resolved
	}
	return s
}
func c20LogRequest(r *http.Request, id int)            {}
func c20LogResponse(w http.ResponseWriter, id int)     {}
func c20Language(r *http.Request) string               { return "en" }
func c20NoHeaders(w http.ResponseWriter, r *http.Request) {}
func c20NoScan()                                       {}
func c20AcceptsGzip(r *http.Request) bool              { return false }
func c20Text(lang, key string, args ...map[string]any) string { return key }
func c20GetInt(key string) int                         { return 0 }
func c20Get(key string) string                         { return "" }
func c20ErrorResponse(w http.ResponseWriter, id int, msg string, status int) int {
	w.(*c20Writer).status = status
	return status
}
func c20GetPermission(session int, user, privilege string) bool {
	if user != "u" {
		return false
	}
	return c20Store[privilege]
}
func c20GetPermissions(session int, user string) []string {
	var out []string
	for _, p := range []string{"p", "q"} {
		if user == "u" && c20Store[p] {
			out = append(out, p)
		}
	}
	return out
}

func c20Handler(session *Session, w http.ResponseWriter, r *http.Request) int {
	c20Ran = true
	c20Session = session
	return http.StatusOK
}

func VerifC20_handlerRunsOnlyForAuthorizedRequests() {
	calls := 3
	sym.Bound("builderCalls", calls)
	m := NewRouter("verif")
	route := m.New("/x", c20Handler, "GET")
	required := map[string]bool{}
	requiresAuth, specified := false, false
	n := sym.Choice("calls", calls+1)
	for i := 0; i < n; i++ {
		switch sym.Choice("builder", 4) {
		case 0:
			b := sym.Bool("arg")
			route.Authentication(b)
			requiresAuth, specified = b, true
		case 1:
			if sym.Bool("two") {
				route.Permissions("p", "q")
				required["p"], required["q"] = true, true
			} else {
				route.Permissions("p")
				required["p"] = true
			}
			requiresAuth, specified = true, true
		case 2:
			b := sym.Bool("arg")
			route.LightWeight(b)
			// LightWeight's effect on authentication is not documented: after it
			// the declaration no longer says unambiguously whether authentication
			// is required, unless a later call says so
			specified = false
		case 3:
			route.CanAuthenticate(sym.Bool("arg"))
		}
	}
	// credential outcome and permission store
	c20Outcome.authenticated = sym.Bool("authenticated")
	c20Outcome.admin = sym.Bool("admin")
	c20Outcome.lockedOut = sym.Bool("lockedOut")
	c20Outcome.resolved = nil
	c20Store = map[string]bool{"p": sym.Bool("storeHasP"), "q": sym.Bool("storeHasQ")}
	if sym.Bool("sessionResolvesPermissions") {
		// the session carries the user's permissions (token/JWT logins): same truth as the store
		for _, p := range []string{"p", "q"} {
			if c20Store[p] {
				c20Outcome.resolved = append(c20Outcome.resolved, p)
			}
		}
	}
	c20Ran, c20Session = false, nil
	w := &c20Writer{hdr: http.Header{}}
	r := &http.Request{Method: "GET", URL: &url.URL{Path: "/x"}, Header: http.Header{}}
	sym.Known("C20-lightweight-route-skips-authentication", c20LightThenAuth(route))
	m.ServeHTTP(w, r)
	sym.Reach("served")
	if !c20Ran {
		return
	}
	sym.Reach("handler-ran")
	if specified && requiresAuth {
		sym.Assert(c20Outcome.authenticated, "the handler of a route that requires authentication ran for an unauthenticated request")
	}
	for p := range required {
		granted := c20Outcome.authenticated && (c20Outcome.admin || c20Store[p])
		sym.Assert(granted, "the handler ran although a required permission is not held by the authenticated identity")
	}
}

// c20LightThenAuth: the route is lightweight and yet requires authentication
// or permissions (the authentication step is skipped for lightweight routes).
func c20LightThenAuth(r *Route) bool {
	return r.lightweight && (r.mustAuthenticate || len(r.requiredPermissions) > 0)
}
