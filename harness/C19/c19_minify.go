package egostrings

//verif:dir internal/util/strings
//verif:bound free JSON text: any bytes, (not used)
//verif:bound MarshalIndent skeletons: 2 string bodies, each <=4 (quick) / <=6 (thorough) bytes, any byte values
//verif:outside gzip (compress/gzip), encoding/json itself, texts longer than the bound

import (
	sym "github.com/tucats/ego/internal/zzverif/sym"
)

// refStrip removes whitespace outside JSON string literals with a correct
// escape state machine. It works on bytes: JSON whitespace is ASCII, and a
// multi-byte rune can never contain an ASCII byte.
func refStrip(s string) string {
	out := make([]byte, 0, len(s))
	inStr, esc := false, false
	for i := 0; i < len(s); i++ {
		c := s[i]
		if inStr {
			out = append(out, c)
			if esc {
				esc = false
			} else if c == '\\' {
				esc = true
			} else if c == '"' {
				inStr = false
			}
			continue
		}
		if c == ' ' || c == '\t' || c == '\n' || c == '\r' {
			continue
		}
		if c == '"' {
			inStr = true
		}
		out = append(out, c)
	}
	return string(out)
}

// validBody: s is a valid JSON string body (between the quotes): no raw
// control byte, no bare quote, every backslash starts a legal escape.
// Restricted to ASCII so that UTF-8 validity is not in question.
func validBody(s string) bool {
	for i := 0; i < len(s); i++ {
		c := s[i]
		if c < 0x20 || c >= 0x80 || c == '"' {
			return false
		}
		if c == '\\' {
			i++
			if i >= len(s) {
				return false
			}
			switch s[i] {
			case '"', '\\', '/', 'b', 'f', 'n', 'r', 't':
			default:
				return false // \uXXXX needs 6 bytes; outside the bound
			}
		}
	}
	return true
}

// VerifC19_arrayOfTwoStrings: the layout json.MarshalIndent gives a
// two-element string array, with arbitrary valid string bodies.
func VerifC19_arrayOfTwoStrings() {
	n := 4
	if sym.Thorough() {
		n = 6
	}
	sym.Bound("bodyBytes", n)
	s1 := sym.String("s1", n)
	s2 := sym.String("s2", n)
	sym.Assume(validBody(s1))
	sym.Assume(validBody(s2))
	sym.Known("C19-escaped-backslash-before-quote", endsWithEvenBackslashRun(s1) || endsWithEvenBackslashRun(s2))
	in := "[\n  \"" + s1 + "\",\n  \"" + s2 + "\"\n]"
	out := JSONMinify(in)
	sym.Reach("after-minify")
	sym.Observe("out", out)
	sym.Assert(out == refStrip(in), "JSONMinify changed more than insignificant whitespace")
}

// endsWithEvenBackslashRun: the body ends in a non-empty, even-length run of
// backslashes, i.e. an escaped backslash is immediately followed by the
// closing quote. This is the class of known finding C19-escaped-backslash.
func endsWithEvenBackslashRun(s string) bool {
	n := 0
	for i := len(s) - 1; i >= 0 && s[i] == '\\'; i-- {
		n++
	}
	return n > 0 && n%2 == 0
}

// VerifC19_objectSkeleton: {"k": "S1", "m": "S2"} as MarshalIndent lays it out.
func VerifC19_objectSkeleton() {
	n := 4
	if sym.Thorough() {
		n = 6
	}
	sym.Bound("bodyBytes", n)
	s1 := sym.String("s1", n)
	s2 := sym.String("s2", n)
	sym.Assume(validBody(s1))
	sym.Assume(validBody(s2))
	sym.Known("C19-escaped-backslash-before-quote", endsWithEvenBackslashRun(s1) || endsWithEvenBackslashRun(s2))
	in := "{\n  \"k\": \"" + s1 + "\",\n  \"m\": \"" + s2 + "\"\n}"
	out := JSONMinify(in)
	sym.Reach("after-minify")
	sym.Observe("out", out)
	sym.Assert(out == refStrip(in), "JSONMinify changed more than insignificant whitespace")
}
