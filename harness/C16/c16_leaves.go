package sqlparse

//verif:dir internal/sqlparse
//verif:bound one statement SELECT <leaf> FROM t (or SELECT a FROM <leaf>, SELECT a AS <leaf> FROM t) in the SQLite dialect, where the leaf is a quoted identifier in one of the three quoting styles ("..", `..`, [..]) whose content is any string of 1..4 (quick) / 1..5 (thorough) bytes over letters, digits and _ $ space . ' " ` [ ], or a string literal whose content is any string of 0..4 bytes over the same alphabet plus backslash
//verif:bound SELECT a FROM t with a row window in each of its three spellings (LIMIT n / LIMIT n OFFSET m / LIMIT m, n) where n and m are arbitrary 1..2-digit numbers
//verif:bound SELECT <op><sep><op>1 FROM t for prefix operators - + ~ written with a blank, nothing or parentheses between them
//verif:assume ASCII content only (the lexer works on runes; non-ASCII letters are never keywords)
//verif:outside every other syntactic form (expression operators, clauses, DDL): formatting of whole statements is outside this claim; executing the reformatted text against SQLite; the PostgreSQL dialect (always quotes)

import (
	"github.com/tucats/ego/internal/sqlparse/ast"
	sym "github.com/tucats/ego/internal/zzverif/sym"
)

// c16Alphabet restricts every byte of s to letters, digits and the bytes of
// extra; the membership test is one table lookup, not a chain of branches.
func c16Alphabet(s string, extra string) {
	var allowed [256]bool
	for c := 0; c < 256; c++ {
		allowed[c] = (c >= 'a' && c <= 'z') || (c >= 'A' && c <= 'Z') || (c >= '0' && c <= '9')
	}
	for j := 0; j < len(extra); j++ {
		allowed[extra[j]] = true
	}
	for i := 0; i < len(s); i++ {
		sym.Assume(allowed[s[i]])
	}
}

// c16Leaf extracts what the statement's leaf means: its kind and its text.
func c16Leaf(p *Sqlparse, position int) (kind string, text string, ok bool) {
	sel, isSel := p.stmt.(*ast.SelectStmt)
	if !isSel {
		return "", "", false
	}
	core, isCore := sel.Select.(*ast.SelectCore)
	if !isCore || len(core.Columns) != 1 || len(core.From) != 1 {
		return "", "", false
	}
	switch position {
	case 0:
		switch e := core.Columns[0].Expr.(type) {
		case *ast.ColumnRef:
			if e.Schema != "" || e.Table != "" || core.Columns[0].Alias != "" {
				return "", "", false
			}
			return "column", e.Column, true
		case *ast.Literal:
			if core.Columns[0].Alias != "" {
				return "", "", false
			}
			return "literal:" + e.LitKind.String(), e.Value, true
		}
		return "", "", false
	case 1:
		t, isRef := core.From[0].(*ast.TableRef)
		if !isRef || t.Schema != "" || t.Alias != "" {
			return "", "", false
		}
		return "table", t.Name, true
	default:
		if _, isCol := core.Columns[0].Expr.(*ast.ColumnRef); !isCol {
			return "", "", false
		}
		return "alias", core.Columns[0].Alias, true
	}
}

func c16RoundTrip(src string, position int, wantKind, wantText string) {
	p1, err := New(src, SQLite)
	if err != nil {
		sym.Reach("rejected")
		return
	}
	k1, t1, ok := c16Leaf(p1, position)
	sym.Assert(ok && k1 == wantKind && t1 == wantText, "the parser did not read the leaf as written")
	f := p1.Format()
	sym.Observe("formatted", f)
	p2, err := New(f, SQLite)
	sym.Reach("reformatted")
	if err != nil {
		sym.Assert(false, "the reformatted text of an accepted statement no longer parses")
		return
	}
	k2, t2, ok2 := c16Leaf(p2, position)
	sym.Assert(ok2 && k2 == k1 && t2 == t1, "the reformatted text parses to a different syntax tree")
	sym.Assert(p2.Format() == f, "reformatting the reformatted text changed it again")
}

func VerifC16_quotedIdentifierSurvivesFormatting() {
	max := 4
	if sym.Thorough() {
		max = 5
	}
	name := sym.String("name", max)
	sym.Assume(len(name) >= 1)
	c16Alphabet(name, "_$ .'\"`[]")
	var quoted string
	switch sym.Choice("style", 3) {
	case 0:
		quoted = "\""
		for i := 0; i < len(name); i++ {
			if name[i] == '"' {
				quoted += "\""
			}
			quoted += string(name[i])
		}
		quoted += "\""
	case 1:
		quoted = "`"
		for i := 0; i < len(name); i++ {
			if name[i] == '`' {
				quoted += "`"
			}
			quoted += string(name[i])
		}
		quoted += "`"
	default:
		for i := 0; i < len(name); i++ {
			sym.Assume(name[i] != ']')
		}
		quoted = "[" + name + "]"
	}
	switch position := sym.Choice("position", 3); position {
	case 0:
		c16RoundTrip("SELECT "+quoted+" FROM t", 0, "column", name)
	case 1:
		c16RoundTrip("SELECT a FROM "+quoted, 1, "table", name)
	default:
		c16RoundTrip("SELECT a AS "+quoted+" FROM t", 2, "alias", name)
	}
}

func VerifC16_stringLiteralSurvivesFormatting() {
	text := sym.String("text", 4)
	c16Alphabet(text, "_$ .'\"`[]\\")
	lit := "'"
	for i := 0; i < len(text); i++ {
		if text[i] == '\'' {
			lit += "'"
		}
		lit += string(text[i])
	}
	lit += "'"
	c16RoundTrip("SELECT "+lit+" FROM t", 0, "literal:"+ast.LitString.String(), text)
}

func c16Digits(label string) string {
	d := sym.String(label, 2)
	sym.Assume(len(d) >= 1)
	for i := 0; i < len(d); i++ {
		sym.Assume(d[i] >= '0' && d[i] <= '9')
	}
	return d
}

func c16Limit(p *Sqlparse) (count, offset string, ok bool) {
	sel, isSel := p.stmt.(*ast.SelectStmt)
	if !isSel || sel.Limit == nil {
		return "", "", false
	}
	c, isLit := sel.Limit.Limit.(*ast.Literal)
	if !isLit {
		return "", "", false
	}
	if sel.Limit.Offset == nil {
		return c.Value, "", true
	}
	o, isLit := sel.Limit.Offset.(*ast.Literal)
	if !isLit {
		return "", "", false
	}
	return c.Value, o.Value, true
}

// VerifC16_limitClauseKeepsCountAndOffset: the three spellings of a row window
// (LIMIT n, LIMIT n OFFSET m, and sqlite3's LIMIT m, n whose FIRST number is the
// offset) are read as written and keep count and offset through reformatting.
func VerifC16_limitClauseKeepsCountAndOffset() {
	a, b := c16Digits("first"), c16Digits("second")
	var src, wantCount, wantOffset string
	switch sym.Choice("spelling", 3) {
	case 0:
		src, wantCount, wantOffset = "SELECT a FROM t LIMIT "+a, a, ""
	case 1:
		src, wantCount, wantOffset = "SELECT a FROM t LIMIT "+a+" OFFSET "+b, a, b
	default:
		src, wantCount, wantOffset = "SELECT a FROM t LIMIT "+a+", "+b, b, a
	}
	p1, err := New(src, SQLite)
	sym.Assert(err == nil, "a plain row-window clause was not accepted")
	if err != nil {
		return
	}
	c1, o1, ok := c16Limit(p1)
	sym.Reach("parsed")
	sym.Assert(ok && c1 == wantCount && o1 == wantOffset, "the parser mixed up the row count and the offset of a LIMIT clause")
	f := p1.Format()
	sym.Observe("formatted", f)
	p2, err := New(f, SQLite)
	sym.Assert(err == nil, "the reformatted text of an accepted statement no longer parses")
	if err != nil {
		return
	}
	c2, o2, ok2 := c16Limit(p2)
	sym.Assert(ok2 && c2 == wantCount && o2 == wantOffset, "reformatting changed the row count or the offset of a LIMIT clause")
	sym.Assert(p2.Format() == f, "reformatting the reformatted text changed it again")
}

// c16Unary describes the chain of prefix operators in front of the literal 1 in
// SELECT <ops> 1 FROM t, innermost last, or ok=false for any other tree.
func c16Unary(p *Sqlparse) (ops string, ok bool) {
	sel, isSel := p.stmt.(*ast.SelectStmt)
	if !isSel {
		return "", false
	}
	core, isCore := sel.Select.(*ast.SelectCore)
	if !isCore || len(core.Columns) != 1 {
		return "", false
	}
	n := core.Columns[0].Expr
	for {
		switch e := n.(type) {
		case *ast.UnaryExpr:
			ops += e.Op
			n = e.X
			continue
		case *ast.Literal:
			// a sign may have been folded into the literal
			return ops + "|" + e.Value, true
		}
		return "", false
	}
}

// VerifC16_prefixOperatorsStayApart: two prefix operators in a row keep their
// meaning when reformatted (- -1 must not become --1, which starts a comment).
func VerifC16_prefixOperatorsStayApart() {
	ops := []string{"-", "+", "~"}
	o1, o2 := ops[sym.Choice("outer", 3)], ops[sym.Choice("inner", 3)]
	sep := []string{" ", "", "("}[sym.Choice("separator", 3)]
	src := "SELECT " + o1 + sep + o2 + "1"
	if sep == "(" {
		src += ")"
	}
	src += " FROM t"
	p1, err := New(src, SQLite)
	if err != nil {
		sym.Reach("rejected")
		return
	}
	u1, ok := c16Unary(p1)
	if !ok {
		return
	}
	f := p1.Format()
	sym.Observe("formatted", f)
	sym.Reach("reformatted")
	p2, err := New(f, SQLite)
	if err != nil {
		sym.Assert(false, "the reformatted text of an accepted statement no longer parses")
		return
	}
	u2, ok2 := c16Unary(p2)
	sym.Assert(ok2 && u2 == u1, "the reformatted text parses to a different syntax tree")
	sym.Assert(p2.Format() == f, "reformatting the reformatted text changed it again")
}
