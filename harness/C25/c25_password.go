package auth

//verif:dir internal/server/auth
//verif:stub golang.org/x/crypto/bcrypt.CompareHashAndPassword = c25BcryptCompare
//verif:stub golang.org/x/crypto/bcrypt.GenerateFromPassword = c25BcryptGenerate
//verif:stub github.com/tucats/ego/internal/util/strings.HashString = c25Hash
//verif:stub github.com/tucats/ego/internal/cli/settings.GetBool = c25GetBool
//verif:bound one stored user "bob" whose credential is the bcrypt form, the legacy hash form or the plaintext {..} form of an arbitrary password of up to 3 bytes; an arbitrary candidate password of up to 3 bytes; the user name spelled bob/Bob/BOB/other; permissions any subset of {logon, root, other}; plaintext passwords enabled or not; then a second validation with another arbitrary candidate after the legacy-to-bcrypt upgrade
//verif:assume ideal hashes: bcrypt (of the first 72 bytes, refusing longer input when hashing, as documented) and the legacy hash are injective functions of the password whose outputs carry their own format marker (never mistaken for one another or for a plaintext form); the user store is the harness's in-memory store
//verif:bound the same with passwords and candidates of 70 fixed bytes followed by 0..3 arbitrary bytes (around bcrypt's 72-byte limit)
//verif:outside the real user stores (file/SQL: property C31), passwords outside the two length bands

import (
	"errors"
	"strings"

	"github.com/tucats/ego/internal/defs"
	egostrings "github.com/tucats/ego/internal/util/strings"
	sym "github.com/tucats/ego/internal/zzverif/sym"
)

type c25Store struct {
	user   defs.User
	exists bool
	writes int
}

func (s *c25Store) ReadUser(session int, name string, doNotLog bool) (defs.User, error) {
	if s.exists && name == s.user.Name {
		return s.user, nil
	}
	return defs.User{}, errors.New("no such user")
}
func (s *c25Store) WriteUser(session int, u defs.User) error {
	s.user = u
	s.writes++
	return nil
}
func (s *c25Store) DeleteUser(session int, name string) error        { return nil }
func (s *c25Store) ListUsers(suppress bool) map[string]defs.User      { return nil }
func (s *c25Store) Flush() error                                      { return nil }
func (s *c25Store) Close() error                                      { return nil }

var c25Plaintext bool

func c25GetBool(key string) bool { return key == defs.PlaintextPasswordSetting && c25Plaintext }
func c25Hash(s string) string   { return "H:" + s }

// bcrypt as documented: hashing refuses more than 72 bytes; comparison looks
// at the first 72 bytes only.
func c25BcryptGenerate(password []byte, cost int) ([]byte, error) {
	if len(password) > 72 {
		return nil, errors.New("bcrypt: password length exceeds 72 bytes")
	}
	return []byte("$2a$" + string(password)), nil
}
func c25BcryptCompare(hash, password []byte) error {
	if len(password) > 72 {
		password = password[:72]
	}
	if string(hash) == "$2a$"+string(password) {
		return nil
	}
	return errors.New("mismatch")
}

// c25Credential is the stored form of a password: built by the model hashes
// under the engine and by the real bcrypt / SHA-256 code natively.
func c25Credential(format int, real string) string {
	switch format {
	case 0:
		h, err := HashPassword(real)
		sym.Assume(err == nil)
		return h
	case 1:
		return egostrings.HashString(real)
	default:
		return "{" + real + "}"
	}
}

func VerifC25_acceptedExactlyWhenMatching() {
	c25Check(sym.String("password", 3), sym.String("candidate", 3), func() string { return sym.String("candidate2", 3) })
}

// VerifC25_longPasswords: the same around bcrypt's 72-byte limit. Passwords
// are 70 fixed bytes followed by 0..3 arbitrary ones.
func VerifC25_longPasswords() {
	prefix := strings.Repeat("x", 70)
	c25Check(prefix+sym.String("passwordTail", 3), prefix+sym.String("candidateTail", 3), func() string { return prefix + sym.String("candidate2Tail", 3) })
}

func c25Check(real, cand string, next func() string) {
	format := sym.Choice("format", 3)
	stored := c25Credential(format, real)
	var perms []string
	hasLogon, hasRoot := sym.Bool("logon"), sym.Bool("root")
	if hasLogon {
		perms = append(perms, defs.LogonPermission)
	}
	if hasRoot {
		perms = append(perms, defs.RootPermission)
	}
	perms = append(perms, "other")
	store := &c25Store{exists: true, user: defs.User{Name: "bob", Password: stored, Permissions: perms}}
	saved := AuthService
	AuthService = store
	defer func() { AuthService = saved }()
	c25Plaintext = sym.Bool("plaintextEnabled")
	name := []string{"bob", "Bob", "BOB", "rob"}[sym.Choice("name", 4)]

	got := ValidatePassword(1, name, cand)
	sym.Reach("validated")
	matches := cand == real && cand != ""
	if format == 2 && !c25Plaintext {
		matches = false
	}
	want := strings.ToLower(name) == "bob" && matches && (hasLogon || hasRoot)
	sym.Assert(got == want, "ValidatePassword's answer is not (user exists, password matches the stored credential, logon or root permission held)")

	// after a possible legacy -> bcrypt upgrade the accepted set is unchanged
	cand2 := next()
	got2 := ValidatePassword(1, "bob", cand2)
	matches2 := cand2 == real && cand2 != ""
	if format == 2 && !c25Plaintext && store.writes == 0 {
		matches2 = false
	}
	sym.Assert(got2 == (matches2 && (hasLogon || hasRoot)), "after the credential upgrade a different set of passwords is accepted")
}
