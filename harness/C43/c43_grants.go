package tables

//verif:dir internal/server/tables
//verif:stub github.com/tucats/ego/internal/server/tables.initPermissions = c43InitPermissions
//verif:stub (*github.com/tucats/ego/internal/resources.ResHandle).Read = c43Read
//verif:stub (github.com/tucats/ego/internal/resources.ResHandle).Equals = c43Equals
//verif:bound two data source names and one table name, each an arbitrary string of 1..2 bytes over {a b .}; each DSN restricted or not; one stored grant whose user is u or v, whose dsn and table are each one of {dsn1, dsn2, table, another name}, with the requested operation's flag and the admin flag arbitrary; one read/write/update/delete request by a non-administrator, composed as the row endpoints compose it (dsn + "." + table)
//verif:assume the permission store returns exactly the grants whose user, dsn and table columns equal the filter values (the store itself is property C30's subject); DSN names are any non-empty strings without surrounding blanks (all the DSN endpoint enforces)
//verif:outside the handlers around Authorized (rows.go, rowsAbstract.go), DSN-level permissions (AuthDSN), administrators

import (
	"errors"
	"os"

	"github.com/tucats/ego/internal/defs"
	"github.com/tucats/ego/internal/dsns"
	"github.com/tucats/ego/internal/resources"
	"github.com/tucats/ego/internal/router"
	sym "github.com/tucats/ego/internal/zzverif/sym"
)

type c43DSNs struct {
	names      [2]string
	restricted [2]bool
}

func (s *c43DSNs) AuthDSN(session int, user, dsn string, action dsns.DSNAction) bool { return true }
func (s *c43DSNs) ReadDSN(session int, user, name string, doNotLog bool) (defs.DSN, error) {
	for i := range s.names {
		if s.names[i] == name {
			return defs.DSN{Name: name, Restricted: s.restricted[i]}, nil
		}
	}
	return defs.DSN{}, errors.New("no such dsn")
}
func (s *c43DSNs) WriteDSN(session int, user string, d defs.DSN) error { return nil }
func (s *c43DSNs) DeleteDSN(session int, user, name string) error      { return nil }
func (s *c43DSNs) ListDSNS(session int, user string) (map[string]defs.DSN, error) {
	return nil, nil
}
func (s *c43DSNs) GrantDSN(session int, user, name string, action dsns.DSNAction, grant bool) error {
	return nil
}
func (s *c43DSNs) Permissions(session int, user, name string) (map[string]dsns.DSNAction, error) {
	return nil, nil
}
func (s *c43DSNs) RevokeAllDSN(session int, name string) error { return nil }
func (s *c43DSNs) Flush() error                                 { return nil }
func (s *c43DSNs) Close() error                                 { return nil }

var c43Grants []*PermissionsObject

func c43InitPermissions() bool { return true }

func c43Equals(r resources.ResHandle, name string, value any) *resources.Filter {
	return &resources.Filter{Name: name, Value: value, Operator: "="}
}

func c43Read(r *resources.ResHandle, filters ...*resources.Filter) ([]any, error) {
	var out []any
	for _, g := range c43Grants {
		ok := true
		for _, f := range filters {
			v, _ := f.Value.(string)
			switch f.Name {
			case "dsn":
				ok = ok && g.DSN == v
			case "table":
				ok = ok && g.Table == v
			case "user":
				ok = ok && g.User == v
			}
		}
		if ok {
			out = append(out, g)
		}
	}
	return out, nil
}

func c43Name(label string) string {
	s := sym.String(label, 2)
	sym.Assume(len(s) >= 1)
	for i := 0; i < len(s); i++ {
		sym.Assume(s[i] == 'a' || s[i] == 'b' || s[i] == '.')
	}
	return s
}

func VerifC43_grantsAuthorizeOnlyTheirOwnTable() {
	svc := &c43DSNs{}
	svc.names[0], svc.names[1] = c43Name("dsn1"), c43Name("dsn2")
	sym.Assume(svc.names[0] != svc.names[1])
	svc.restricted[0], svc.restricted[1] = sym.Bool("restricted1"), sym.Bool("restricted2")
	saved := dsns.DSNService
	dsns.DSNService = svc
	if sym.Symbolic() {
		pHandle = &resources.ResHandle{} // never opened: Read and Equals are stubbed
	}
	defer func() { dsns.DSNService = saved }()
	table := c43Name("table")
	pick := func(label string) string {
		return []string{svc.names[0], svc.names[1], table, "zz"}[sym.Choice(label, 4)]
	}
	ops := []string{defs.TableReadPermission, defs.TableWritePermission, defs.TableUpdatePermission, defs.TableDeletePermission}
	k := sym.Choice("operation", len(ops))
	flag, admin := sym.Bool("grantsOperation"), sym.Bool("gAdmin")
	g := &PermissionsObject{User: []string{"u", "v"}[sym.Choice("grantUser", 2)], DSN: pick("grantDSN"), Table: pick("grantTable"), Admin: admin}
	switch k {
	case 0:
		g.Read = flag
	case 1:
		g.Write = flag
	case 2:
		g.Update = flag
	default:
		g.Delete = flag
	}
	c43Grants = []*PermissionsObject{g}
	if !sym.Symbolic() {
		defer c43NativeStore(g)()
	}
	session := &router.Session{ID: 1, User: "u", Admin: false}
	sym.Known("C43-dsn-name-with-dot-checked-against-another-dsn", c43HasDot(svc.names[0]))

	allowed := Authorized(session, "u", svc.names[0]+"."+table, ops[k])
	sym.Reach("decided")
	if !allowed {
		return
	}
	has := []bool{g.Read, g.Write, g.Update, g.Delete}[k] || g.Admin
	granted := g.User == "u" && g.DSN == svc.names[0] && g.Table == table && has
	sym.Assert(!svc.restricted[0] || granted, "a non-administrator was let at a table of a restricted DSN without a matching grant for that user, DSN and table")
}

func c43HasDot(s string) bool {
	for i := 0; i < len(s); i++ {
		if s[i] == '.' {
			return true
		}
	}
	return false
}

// c43NativeStore: natively the grant lives in a real SQLite permission store.
func c43NativeStore(g *PermissionsObject) func() {
	f, err := os.CreateTemp("", "c43-*.db")
	if err != nil {
		panic(err)
	}
	f.Close()
	h, err := resources.Open(PermissionsObject{}, "table_perms", "sqlite3://"+f.Name())
	if err == nil {
		err = h.CreateIf()
	}
	if err == nil {
		g.ID = "1"
		err = h.Insert(g)
	}
	if err != nil {
		panic(err)
	}
	savedH, savedV := pHandle, pValid
	pHandle, pValid = h, true
	return func() {
		pHandle, pValid = savedH, savedV
		h.Database.Close()
		os.Remove(f.Name())
	}
}
