package tables

//verif:dir internal/server/tables
//verif:stub github.com/tucats/ego/internal/server/tables.ReadAbstractRows = c43Abstract
//verif:stub github.com/tucats/ego/internal/server/tables.InsertAbstractRows = c43Abstract
//verif:stub github.com/tucats/ego/internal/server/tables.UpdateAbstractRows = c43Abstract
//verif:bound one read, insert or update request in the abstract row-set form (Accept header) by a non-administrator, with an arbitrary ?user= parameter (absent, the caller, or somebody else)
//verif:assume the abstract row handlers are replaced by a recorder of the identity they are given (what they do with it is the subject of VerifC43_grantsAuthorizeOnlyTheirOwnTable)
//verif:outside the non-abstract paths of the row handlers (they open the database first), DeleteRows

import (
	"database/sql"
	"net/http"
	"net/url"
	"os"

	"github.com/tucats/ego/internal/defs"
	"github.com/tucats/ego/internal/dsns"
	"github.com/tucats/ego/internal/router"
	"github.com/tucats/ego/internal/server/auth"
	sym "github.com/tucats/ego/internal/zzverif/sym"
	_ "modernc.org/sqlite"
)

var (
	c43GivenUser  string
	c43GivenAdmin bool
	c43Called     int
)

func c43Abstract(user string, isAdmin bool, tableName string, session *router.Session, w http.ResponseWriter, r *http.Request) int {
	c43GivenUser, c43GivenAdmin = user, isAdmin
	c43Called++
	return http.StatusOK
}

// VerifC43_rowHandlersPassTheCallersOwnIdentity: grants are looked up for the
// user name the handler hands down; for a non-administrator that must be the
// authenticated caller, whatever the request says.
func VerifC43_rowHandlersPassTheCallersOwnIdentity() {
	named := []string{"", "bob", "alice"}[sym.Choice("userParameter", 3)]
	rawQuery := ""
	if named != "" {
		rawQuery = "user=" + named
	}
	r := &http.Request{Method: http.MethodGet, URL: &url.URL{Path: "/dsns/d/tables/t/rows", RawQuery: rawQuery},
		Header: http.Header{"Accept": {defs.AbstractRowSetMediaType}}}
	session := &router.Session{ID: 1, User: "bob", Admin: false, Language: "en",
		URLParts: map[string]any{"dsn": "d", "table": "t"}, Parameters: map[string][]string{}}
	if named != "" {
		session.Parameters["user"] = []string{named}
	}
	c43Called, c43GivenUser, c43GivenAdmin = 0, "", false
	handler := sym.Choice("handler", 3)
	if !sym.Symbolic() {
		// native twin (read only): a real restricted SQLite DSN, a real permission
		// store in which alice, not bob, holds the read grant: bob must be refused
		sym.Assume(handler == 0)
		c43NativeRead(session, r)
		return
	}
	switch handler {
	case 0:
		ReadRows(session, nil, r)
	case 1:
		InsertRows(session, nil, r)
	default:
		UpdateRows(session, nil, r)
	}
	sym.Reach("dispatched")
	sym.Assert(c43Called == 1, "the abstract form of the request did not reach the abstract row handler exactly once")
	sym.Assert(c43GivenUser == "bob" && !c43GivenAdmin, "a row handler handed down an identity other than the authenticated caller's")
}

type c43NativeDSN struct{ path string }

func (s *c43NativeDSN) AuthDSN(session int, user, dsn string, action dsns.DSNAction) bool { return true }
func (s *c43NativeDSN) ReadDSN(session int, user, name string, doNotLog bool) (defs.DSN, error) {
	return defs.DSN{Name: "d", Provider: "sqlite3", Database: s.path, Restricted: true}, nil
}
func (s *c43NativeDSN) WriteDSN(session int, user string, d defs.DSN) error { return nil }
func (s *c43NativeDSN) DeleteDSN(session int, user, name string) error      { return nil }
func (s *c43NativeDSN) ListDSNS(session int, user string) (map[string]defs.DSN, error) {
	return nil, nil
}
func (s *c43NativeDSN) GrantDSN(session int, user, name string, action dsns.DSNAction, grant bool) error {
	return nil
}
func (s *c43NativeDSN) Permissions(session int, user, name string) (map[string]dsns.DSNAction, error) {
	return nil, nil
}
func (s *c43NativeDSN) RevokeAllDSN(session int, name string) error { return nil }
func (s *c43NativeDSN) Flush() error                                 { return nil }
func (s *c43NativeDSN) Close() error                                 { return nil }

type c43Users struct{}

func (c43Users) ReadUser(session int, name string, doNotLog bool) (defs.User, error) {
	return defs.User{Name: name, Permissions: []string{defs.LogonPermission, defs.DSNReadPermission}}, nil
}
func (c43Users) WriteUser(session int, u defs.User) error     { return nil }
func (c43Users) DeleteUser(session int, name string) error    { return nil }
func (c43Users) ListUsers(suppress bool) map[string]defs.User { return nil }
func (c43Users) Flush() error                                 { return nil }
func (c43Users) Close() error                                 { return nil }

type c43Recorder struct {
	h      http.Header
	status int
}

func (w *c43Recorder) Header() http.Header         { return w.h }
func (w *c43Recorder) Write(b []byte) (int, error) { return len(b), nil }
func (w *c43Recorder) WriteHeader(status int)      { w.status = status }

func c43NativeRead(session *router.Session, r *http.Request) {
	savedAuth := auth.AuthService
	auth.AuthService = c43Users{}
	defer func() { auth.AuthService = savedAuth }()
	f, err := os.CreateTemp("", "c43rows-*.db")
	if err != nil {
		panic(err)
	}
	f.Close()
	defer os.Remove(f.Name())
	db, err := sql.Open("sqlite", f.Name())
	if err != nil {
		panic(err)
	}
	if _, err := db.Exec(`CREATE TABLE t (a INTEGER); INSERT INTO t (a) VALUES (7)`); err != nil {
		panic(err)
	}
	db.Close()
	saved := dsns.DSNService
	dsns.DSNService = &c43NativeDSN{path: f.Name()}
	defer func() { dsns.DSNService = saved }()
	defer c43NativeStore(&PermissionsObject{User: "alice", DSN: "d", Table: "t", Read: true})()
	w := &c43Recorder{h: http.Header{}}
	status := ReadRows(session, w, r)
	sym.Assert(status != http.StatusOK, "a row handler handed down an identity other than the authenticated caller's")
}
