package bytecode

//verif:dir internal/language/bytecode

// Helpers shared by the C01-C04 harnesses (no harness functions in this file).

import (
	sym "github.com/tucats/ego/internal/zzverif/sym"
)

const c01IntTypes = 10

var c01TypeNames = []string{"int8", "int16", "int32", "int64", "int", "uint8", "uint16", "uint32", "uint64", "uint"}

// c01Int returns an arbitrary value of the k-th integer type.
func c01Int(name string, k int) any {
	switch k {
	case 0:
		return sym.Int8(name)
	case 1:
		return sym.Int16(name)
	case 2:
		return sym.Int32(name)
	case 3:
		return sym.Int64(name)
	case 4:
		return sym.Int(name)
	case 5:
		return sym.Uint8(name)
	case 6:
		return sym.Uint16(name)
	case 7:
		return sym.Uint32(name)
	case 8:
		return sym.Uint64(name)
	default:
		return sym.Uint(name)
	}
}

func c01Context(mode int) *Context {
	return &Context{name: "verif", stack: make([]any, 8), typeStrictness: mode, divZero: true}
}

var c01BinOps = []struct {
	name string
	fn   func(*Context, any) error
}{
	{"+", addByteCode}, {"-", subtractByteCode}, {"*", multiplyByteCode}, {"/", divideByteCode},
	{"%", moduloByteCode}, {"&", bitAndByteCode}, {"|", bitOrByteCode},
}

// c01Go evaluates a op b the way Go does; panics reports a Go run-time panic.
func c01Go(op string, a, b any) (res any, panics bool) {
	switch x := a.(type) {
	case int8:
		return c01GoT(op, x, b.(int8))
	case int16:
		return c01GoT(op, x, b.(int16))
	case int32:
		return c01GoT(op, x, b.(int32))
	case int64:
		return c01GoT(op, x, b.(int64))
	case int:
		return c01GoT(op, x, b.(int))
	case uint8:
		return c01GoT(op, x, b.(uint8))
	case uint16:
		return c01GoT(op, x, b.(uint16))
	case uint32:
		return c01GoT(op, x, b.(uint32))
	case uint64:
		return c01GoT(op, x, b.(uint64))
	case uint:
		return c01GoT(op, x, b.(uint))
	}
	panic("c01Go: type")
}

type c01Integer interface {
	~int8 | ~int16 | ~int32 | ~int64 | ~int | ~uint8 | ~uint16 | ~uint32 | ~uint64 | ~uint
}

func c01GoT[T c01Integer](op string, x, y T) (any, bool) {
	switch op {
	case "+":
		return x + y, false
	case "-":
		return x - y, false
	case "*":
		return x * y, false
	case "/":
		if y == 0 {
			return nil, true
		}
		return x / y, false
	case "%":
		if y == 0 {
			return nil, true
		}
		return x % y, false
	case "&":
		return x & y, false
	case "|":
		return x | y, false
	case "<":
		return x < y, false
	case "<=":
		return x <= y, false
	case ">":
		return x > y, false
	case ">=":
		return x >= y, false
	case "==":
		return x == y, false
	case "!=":
		return x != y, false
	}
	panic("c01GoT: op")
}

