package bytecode

//verif:dir internal/language/bytecode
//verif:bound one VM instruction on same-typed operands: every integer type (int8..int64, int, uint8..uint64, uint) with full-width arbitrary values, strings of up to 2 bytes; every arithmetic/bitwise/comparison/negation opcode; each type-checking mode
//verif:outside & and | on uint64/uint operands (their coercion compares float64 values); everything above single instructions (tokenizer, compiler, control flow, closures, defer/recover, Println formatting); floating point and complex operands (no floating-point theory in the encoder); the exponent and shift operators (documented differences from Go)

import (
	"github.com/tucats/ego/internal/errors"
	sym "github.com/tucats/ego/internal/zzverif/sym"
)

// VerifC01_integerBinaryOps: a op b on two values of one integer type gives
// Go's (wrapping) result of that type; an error is reported iff Go panics.
func VerifC01_integerBinaryOps() {
	k := sym.Choice("type", c01IntTypes)
	op := c01BinOps[sym.Choice("op", len(c01BinOps))]
	mode := sym.Choice("mode", 3)
	a, b := c01Int("a", k), c01Int("b", k)
	sym.Observe("type", c01TypeNames[k])
	sym.Observe("op", op.name)
	bitwise := op.name == "&" || op.name == "|"
	// & and | coerce through data.Int, whose range check for uint64/uint compares
	// float64(x) with MaxInt64: floating point is outside the encoder
	sym.Assume(!(bitwise && (k == 8 || k == 9)))
	sym.Known("C01-bitwise-and-or-yield-int", bitwise && k != 4)
	want, panics := c01Go(op.name, a, b)
	c := c01Context(mode)
	_ = c.push(a)
	_ = c.push(b)
	err := op.fn(c, nil)
	sym.Reach("executed")
	if panics {
		sym.Assert(err != nil, "integer division by zero did not stop the program (Go panics)")
		return
	}
	sym.Assert(err == nil, "the instruction reported an error where Go computes a value")
	if err != nil {
		return
	}
	got, perr := c.Pop()
	sym.Assert(perr == nil && got == want, "the instruction's result differs from Go's (value or type)")
	sym.Assert(c.stackPointer == 0, "the instruction left extra values on the stack")
}

var c01CmpOps = []struct {
	name string
	fn   func(*Context, any) error
}{
	{"<", lessThanByteCode}, {"<=", lessThanOrEqualByteCode}, {">", greaterThanByteCode},
	{">=", greaterThanOrEqualByteCode}, {"==", equalByteCode}, {"!=", notEqualByteCode},
}

// VerifC01_integerComparisons
func VerifC01_integerComparisons() {
	k := sym.Choice("type", c01IntTypes)
	op := c01CmpOps[sym.Choice("op", len(c01CmpOps))]
	mode := sym.Choice("mode", 3)
	a, b := c01Int("a", k), c01Int("b", k)
	want, _ := c01Go(op.name, a, b)
	c := c01Context(mode)
	_ = c.push(a)
	_ = c.push(b)
	err := op.fn(c, nil)
	sym.Reach("executed")
	sym.Assert(err == nil, "a comparison of two values of one integer type reported an error")
	if err != nil {
		return
	}
	got, perr := c.Pop()
	sym.Assert(perr == nil && got == want, "a comparison's result differs from Go's")
}

// VerifC01_stringOps: + and the comparisons on strings.
func VerifC01_stringOps() {
	a, b := sym.String("a", 2), sym.String("b", 2)
	mode := sym.Choice("mode", 3)
	i := sym.Choice("op", 1+len(c01CmpOps))
	c := c01Context(mode)
	_ = c.push(a)
	_ = c.push(b)
	var err error
	var want any
	name := "+"
	_ = name
	if i == 0 {
		err, want = addByteCode(c, nil), a+b
	} else {
		op := c01CmpOps[i-1]
		name = op.name
		err = op.fn(c, nil)
		switch op.name {
		case "<":
			want = a < b
		case "<=":
			want = a <= b
		case ">":
			want = a > b
		case ">=":
			want = a >= b
		case "==":
			want = a == b
		case "!=":
			want = a != b
		}
	}
	sym.Reach("executed")
	sym.Assert(err == nil, "a string operation reported an error")
	if err != nil {
		return
	}
	got, perr := c.Pop()
	sym.Assert(perr == nil && got == want, "a string operation's result differs from Go's")
}

// VerifC01_integerNegation: -a on every integer type wraps like Go and keeps the type.
func VerifC01_integerNegation() {
	k := sym.Choice("type", c01IntTypes)
	mode := sym.Choice("mode", 3)
	a := c01Int("a", k)
	sym.Known("C03-negate-int8-unsupported", k == 0)
	var want any
	switch x := a.(type) {
	case int8:
		want = -x
	case int16:
		want = -x
	case int32:
		want = -x
	case int64:
		want = -x
	case int:
		want = -x
	case uint8:
		want = -x
	case uint16:
		want = -x
	case uint32:
		want = -x
	case uint64:
		want = -x
	case uint:
		want = -x
	}
	c := c01Context(mode)
	_ = c.push(a)
	err := negateByteCode(c, nil)
	sym.Reach("executed")
	sym.Assert(err == nil, "unary minus reported an error")
	if err != nil {
		return
	}
	got, perr := c.Pop()
	sym.Assert(perr == nil && got == want, "unary minus differs from Go")
}

var _ = errors.ErrDivisionByZero
