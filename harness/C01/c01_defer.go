package bytecode

//verif:dir internal/language/bytecode
//verif:stub (*github.com/tucats/ego/internal/language/bytecode.Context).Run = c01dRun
//verif:bound one or two defer statements, each deferring a call with 1..3 arbitrary integer arguments, registered by the real Defer instruction and replayed by the real invokeDeferredStatements (normal return) or invokePanicDefers (panic unwinding)
//verif:assume under the engine, running the small call program that the replay builds is replaced by recording that program; the native twin really runs it, calling a native function that records the arguments it receives
//verif:outside the compiler's lowering of defer statements, receivers (method values), closures over the frame's symbols, recover()

import (
	"github.com/tucats/ego/internal/language/data"
	"github.com/tucats/ego/internal/language/symbols"
	sym "github.com/tucats/ego/internal/zzverif/sym"
)

// c01dCalls records, per replayed defer, the operands pushed before the Call.
var c01dCalls [][]any

func c01dRun(c *Context) error {
	var pushed []any
	for k := 0; k < c.bc.nextAddress; k++ {
		in := c.bc.instructions[k]
		if in.Operation == Push {
			pushed = append(pushed, in.Operand)
		}
	}
	c01dCalls = append(c01dCalls, pushed)
	return nil
}

// VerifC01_deferredCallsGetTheirArgumentsInOrder: Go evaluates a deferred
// call's arguments at the defer statement and passes them, in source order,
// when the function is left, last defer first, however it is left.
func VerifC01_deferredCallsGetTheirArgumentsInOrder() {
	initializeDispatch()
	c := &Context{name: "verif", stack: make([]any, 16), symbols: symbols.NewSymbolTable("verif"), bc: New("verif")}
	nDefers := 1 + sym.Choice("defers", 2)
	var want [][]any
	for d := 0; d < nDefers; d++ {
		argc := 1 + sym.Choice("arguments", 3)
		name := []string{"first", "second"}[d]
		var target any = name
		if !sym.Symbolic() {
			// natively the call really happens: the target is a native function
			// that records the arguments it receives
			target = func(s *symbols.SymbolTable, args data.List) (any, error) {
				c01dCalls = append(c01dCalls, append([]any{name}, args.Elements()...))
				return nil, nil
			}
		}
		call := []any{name}
		_ = c.push(target)
		for a := 0; a < argc; a++ {
			v := sym.Int("argument")
			call = append(call, v)
			_ = c.push(v)
		}
		if err := deferByteCode(c, argc); err != nil {
			sym.Assert(false, "the Defer instruction failed")
			return
		}
		want = append([][]any{call}, want...) // last registered runs first
	}
	c01dCalls = nil
	var err error
	if sym.Bool("leftByPanic") {
		err = c.invokePanicDefers()
	} else {
		err = c.invokeDeferredStatements()
	}
	sym.Reach("replayed")
	sym.Observe("calls", len(c01dCalls))
	if len(c01dCalls) > 0 {
		sym.Observe("operandsOfFirstCall", len(c01dCalls[0]))
	}
	sym.Assert(err == nil, "replaying the deferred calls failed")
	sym.Assert(len(c01dCalls) == len(want), "not every deferred call ran exactly once")
	if len(c01dCalls) != len(want) {
		return
	}
	for i := range want {
		got := c01dCalls[i]
		sym.Assert(len(got) == len(want[i]), "a deferred call was built with the wrong number of operands")
		if len(got) != len(want[i]) {
			return
		}
		sym.Assert(got[0] == want[i][0], "deferred calls did not run last-in, first-out")
		for k := 1; k < len(got); k++ {
			sym.Assert(got[k] == want[i][k], "a deferred call received its arguments in a different order than they were written")
		}
	}
}
