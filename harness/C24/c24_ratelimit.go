package router

//verif:dir internal/router
//verif:stub github.com/tucats/ego/internal/router.startRateLimitScan = c24NoScan
//verif:stub github.com/tucats/ego/internal/cli/settings.Get = c24Get
//verif:stub github.com/tucats/ego/internal/cli/settings.GetInt = c24GetInt
//verif:bound histories of 4 (quick) / 5 (thorough) login attempts over users {u,v}, each with an arbitrary right/wrong password outcome, the background prune task run before one arbitrary attempt (or never); configured limit arbitrary in 0..2; lockout duration the 15-minute default; the clock is arbitrary and non-decreasing with one-second resolution; it advances between operations (each CheckRateLimit/RecordFailure/RecordSuccess/prune call is instantaneous)
//verif:assume the login sequence of router.Authenticate is: CheckRateLimit(user) > 0 => refuse without validating; else validate, then RecordFailure or RecordSuccess (mirrored by the harness driver c24Attempt)
//verif:outside sub-second clock behaviour; the very instant a lockout runs out; configured (non-default) lockout durations

import (
	"time"

	"github.com/tucats/ego/internal/defs"
	sym "github.com/tucats/ego/internal/zzverif/sym"
)

var c24Limit int

func c24NoScan() {}
func c24Get(key string) string {
	if key == defs.AuthMaxAttemptsSetting {
		return "set"
	}
	return ""
}
func c24GetInt(key string) int {
	if key == defs.AuthMaxAttemptsSetting {
		return c24Limit
	}
	return 0
}

// reference state per user
type c24Ref struct {
	consecutive int       // failures since the last success
	locked      bool      // a lock has been triggered and not yet certainly expired
	lockLo      time.Time // the lock certainly lasts until here
	lockHi      time.Time // and certainly not beyond here
	forgotten   bool      // the prune task may have discarded this user's failures
}

const c24D = defaultLockoutDuration

var c24Last time.Time

// c24Tick advances the clock to an arbitrary later instant. Under the engine
// time.Now() then returns exactly that instant. Natively the real clock cannot
// be set, so the same elapsed time is produced by moving every stored
// timestamp into the past instead (the code only ever compares and subtracts
// instants, so it cannot tell the difference).
func c24Tick() time.Time {
	t := sym.Clock()
	if !sym.Symbolic() {
		if !c24Last.IsZero() {
			d := t.Sub(c24Last)
			for _, rec := range loginAttempts {
				rec.lastFailure = rec.lastFailure.Add(-d)
				if !rec.lockedUntil.IsZero() {
					rec.lockedUntil = rec.lockedUntil.Add(-d)
				}
			}
		}
		c24Last = t
	}
	return t
}

func VerifC24_lockoutHistory() {
	steps := 4
	if sym.Thorough() {
		steps = 5
	}
	sym.Bound("attempts", steps)
	loginAttempts = map[string]*loginRecord{}
	c24Last = time.Time{}
	c24Limit = sym.Choice("limit", 3)
	pruneAt := sym.Choice("pruneAt", steps+1)
	users := []string{"u", "v"}
	ref := map[string]*c24Ref{"u": {}, "v": {}}
	for i := 0; i < steps; i++ {
		if i == pruneAt {
			c24Tick()
			pruneLoginAttempts()
			for _, r := range ref {
				r.forgotten = true // from here on the code may know fewer failures than really happened
			}
		}
		user := users[sym.Choice("user", 2)]
		r := ref[user]
		now := c24Tick()
		after := now
		wait := CheckRateLimit(user)
		refused := wait > 0

		if c24Limit == 0 {
			sym.Assert(!refused, "an account was locked although the limit is zero")
		}
		if r.locked && after.Before(r.lockLo) {
			sym.Assert(refused, "an attempt inside the lockout period was not refused")
		}
		if !r.forgotten && !r.locked && r.consecutive < c24Limit && c24Limit > 0 {
			sym.Assert(!refused, "an attempt was refused although fewer than the limit of consecutive failures were recorded")
		}
		if refused {
			continue // the password is not checked
		}
		if sym.Bool("passwordOK") {
			RecordSuccess(user)
			r.consecutive, r.locked, r.forgotten = 0, false, false
			continue
		}
		t0, t1 := now, now
		RecordFailure(0, user)
		r.consecutive++
		if c24Limit > 0 && r.consecutive >= c24Limit && !r.forgotten {
			// the failure that reaches the limit starts a lockout; so does every
			// further consecutive failure made strictly after the previous lockout
			// ran out (at the very instant it runs out the statement is not specific)
			if !r.locked || t0.After(r.lockHi) {
				r.locked, r.lockLo, r.lockHi = true, t0.Add(c24D), t1.Add(c24D)
			}
		}
		// attempts on one user never touch the other one's record
		o := users[0]
		if o == user {
			o = users[1]
		}
		or := ref[o]
		if or.consecutive == 0 && !or.locked {
			_, present := loginAttempts[o]
			sym.Assert(!present || or.forgotten, "an attempt on one username created state for another")
		}
	}
	sym.Reach("history-done")
}
