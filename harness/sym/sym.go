// Package sym is the harness API of the /verif symbolic engine (symgo).
//
// Under symgo every function here is intercepted by the engine: the value
// constructors return SMT variables, Assume/Assert become path-condition and
// proof obligations. Compiled natively (go test -overlay) the same functions
// read a concrete replay vector from $VERIF_REPLAY, so that a counterexample
// found by the solver can be re-run against the real build.
//
// This file exists only in overlays; it is never written into /repo.
package sym

import (
	"encoding/json"
	"fmt"
	"os"
	"runtime"
	"testing"
	"testing/synctest"
	"time"
)

var (
	vec      map[string]uint64
	seq      = map[string]int{}
	failures []string
)

type assumeFalse struct{}

func load() {
	if vec != nil {
		return
	}
	vec = map[string]uint64{}
}

func next(name string) (string, uint64) {
	load()
	k := seq[name]
	seq[name] = k + 1
	full := fmt.Sprintf("%s#%d", name, k)
	return full, vec[full]
}

// Symbolic reports whether the harness runs under the symbolic engine.
func Symbolic() bool { return false }

// Thorough reports whether the thorough tier was requested.
func Thorough() bool { return os.Getenv("VERIF_TIER") == "thorough" }

func Bool(name string) bool     { _, v := next(name); return v != 0 }
func Int8(name string) int8     { _, v := next(name); return int8(v) }
func Int16(name string) int16   { _, v := next(name); return int16(v) }
func Int32(name string) int32   { _, v := next(name); return int32(v) }
func Int64(name string) int64   { _, v := next(name); return int64(v) }
func Int(name string) int       { _, v := next(name); return int(v) }
func Uint8(name string) uint8   { _, v := next(name); return uint8(v) }
func Byte(name string) byte     { _, v := next(name); return byte(v) }
func Uint16(name string) uint16 { _, v := next(name); return uint16(v) }
func Uint32(name string) uint32 { _, v := next(name); return uint32(v) }
func Uint64(name string) uint64 { _, v := next(name); return v }
func Uint(name string) uint     { _, v := next(name); return uint(v) }
func Rune(name string) rune     { _, v := next(name); return rune(int32(v)) }

// Bytes returns an arbitrary byte slice of length 0..max.
func Bytes(name string, max int) []byte {
	load()
	k := seq[name]
	seq[name] = k + 1
	base := fmt.Sprintf("%s#%d", name, k)
	n := int(vec[base+".len"])
	if n > max {
		panic(assumeFalse{})
	}
	b := make([]byte, n)
	for i := range b {
		b[i] = byte(vec[fmt.Sprintf("%s[%d]", base, i)])
	}
	return b
}

// String returns an arbitrary string of length 0..max (any bytes).
func String(name string, max int) string { return string(Bytes(name, max)) }

// StringN returns an arbitrary string of exactly n bytes.
func StringN(name string, n int) string {
	load()
	k := seq[name]
	seq[name] = k + 1
	base := fmt.Sprintf("%s#%d", name, k)
	b := make([]byte, n)
	for i := range b {
		b[i] = byte(vec[fmt.Sprintf("%s[%d]", base, i)])
	}
	return string(b)
}

// Choice returns an arbitrary integer in [0,n); the engine forks over it.
func Choice(name string, n int) int {
	_, v := next(name)
	if int(v) >= n {
		panic(assumeFalse{})
	}
	return int(v)
}

// Concretize forks the symbolic execution over the values of x.
func Concretize(x int) int { return x }

// Assume restricts the inputs considered.
func Assume(c bool) {
	if !c {
		panic(assumeFalse{})
	}
}

// Assert states the property.
func Assert(c bool, msg string) {
	if !c && os.Getenv("VERIF_PANIC_ONLY") == "" {
		failures = append(failures, msg)
		fmt.Printf("VERIF-ASSERT-FAIL: %s\n", msg)
	}
}

// Fail is Assert(false, msg) and ends the path.
func Fail(msg string) {
	failures = append(failures, msg)
	fmt.Printf("VERIF-ASSERT-FAIL: %s\n", msg)
	panic(assumeFalse{})
}

// Reach marks a program point that some path must reach (vacuity witness).
func Reach(label string) {}

// Observe records an output for translator validation.
func Observe(name string, v any) {
	if s, ok := v.(string); ok {
		fmt.Printf("VERIF-OBSERVE: %s=%q\n", name, s)
		return
	}
	fmt.Printf("VERIF-OBSERVE: %s=%v\n", name, v)
}

// Known names a class of inputs covered by an entry of known_findings.jsonl.
func Known(id string, cond bool) {}

// Bound records a bound of the harness in the evidence.
func Bound(name string, v int) {}

// NondetMapOrder makes every later map iteration order arbitrary.
func NondetMapOrder() {}

// LiveThreads is the number of goroutines started by the harness and not finished.
// Natively: goroutines in excess of those that existed when the harness began.
func LiveThreads() int {
	if n := runtime.NumGoroutine() - baseGoroutines; n > 0 {
		return n
	}
	return 0
}

var baseGoroutines int

// Settle lets every other goroutine run until it has finished or is blocked
// for good (the engine runs them to quiescence; natively it just waits).
func Settle() {
	for i := 0; i < 100; i++ {
		if runtime.NumGoroutine() <= baseGoroutines {
			return
		}
		time.Sleep(2 * time.Millisecond)
	}
}

// Yield is an explicit scheduling point.
func Yield() {}

// Clock returns an arbitrary instant, non-decreasing along the path.
// Natively, inside WithFakeClock, the bubble's clock is advanced to that
// instant, so time.Now() in the code under test agrees with the engine.
func Clock() time.Time {
	_, v := next("clock")
	t := time.Unix(int64(v)-62135596800, 0)
	if inBubble {
		if d := time.Until(t); d > 0 {
			time.Sleep(d)
		}
	}
	return t
}

// ClockFine is Clock with an arbitrary half second added to the instant.
func ClockFine() time.Time {
	_, v := next("clock")
	_, h := next("clockhalf")
	t := time.Unix(int64(v)-62135596800, int64(h)*500000000)
	if inBubble {
		if d := time.Until(t); d > 0 {
			time.Sleep(d)
		}
	}
	return t
}

// ClockSpan keeps every later clock reading of the path within n seconds of
// the first one (natively a no-op: the vector already satisfies it).
func ClockSpan(n int) {}

// Instant returns an arbitrary instant in the range Clock draws from; it does
// not move the clock.
func Instant(name string) time.Time {
	_, v := next(name)
	return time.Unix(int64(v)-62135596800, 0)
}

var (
	curT     *testing.T
	inBubble bool
)

// WithFakeClock runs f with a settable clock. Under the engine it is just
// f(): time.Now() is the engine's symbolic clock anyway. Natively f runs in
// a testing/synctest bubble, whose fake clock Clock() advances by sleeping;
// f must leave no goroutine behind (stop sweepers, close what it opened).
func WithFakeClock(f func()) {
	if Symbolic() || curT == nil {
		f()
		return
	}
	var pv any
	panicked := false
	synctest.Test(curT, func(*testing.T) {
		inBubble = true
		// The bubble's clock starts in the year 2000. Jump to the first instant
		// of the vector now, while no background goroutine (a cache sweeper
		// waking once a minute, say) exists that would have to be woken millions
		// of times on the way.
		if v, ok := vec["clock#0"]; ok {
			if d := time.Until(time.Unix(int64(v)-62135596800, 0)); d > 0 {
				time.Sleep(d)
			}
		}
		defer func() {
			inBubble = false
			if r := recover(); r != nil {
				pv, panicked = r, true
			}
		}()
		f()
	})
	if panicked {
		panic(pv)
	}
}

// Replay runs harnesses natively on the vectors in $VERIF_REPLAY:
// {"runs":[{"harness":"VerifX","inputs":{"name#0":1,...}},...]}.
func Replay(t *testing.T, harnesses map[string]func()) {
	curT = t
	p := os.Getenv("VERIF_REPLAY")
	b, err := os.ReadFile(p)
	if err != nil {
		t.Fatalf("cannot read replay file: %v", err)
	}
	var doc struct {
		Runs []struct {
			Harness string            `json:"harness"`
			Inputs  map[string]uint64 `json:"inputs"`
		} `json:"runs"`
	}
	if err := json.Unmarshal(b, &doc); err != nil {
		t.Fatalf("bad replay file: %v", err)
	}
	for i, run := range doc.Runs {
		fmt.Printf("VERIF-RUN: %d %s\n", i, run.Harness)
		h, ok := harnesses[run.Harness]
		if !ok {
			fmt.Printf("VERIF-RESULT: error no harness %q\n", run.Harness)
			continue
		}
		vec = run.Inputs
		if vec == nil {
			vec = map[string]uint64{}
		}
		seq = map[string]int{}
		failures = nil
		baseGoroutines = runtime.NumGoroutine()
		invalid := false
		func() {
			defer func() {
				if r := recover(); r != nil {
					if _, ok := r.(assumeFalse); ok {
						invalid = len(failures) == 0
						return
					}
					fmt.Printf("VERIF-PANIC: %v\n", r)
					failures = append(failures, fmt.Sprint("panic: ", r))
				}
			}()
			h()
		}()
		switch {
		case invalid:
			fmt.Println("VERIF-RESULT: invalid")
		case len(failures) > 0:
			fmt.Printf("VERIF-RESULT: reproduced %d\n", len(failures))
		default:
			fmt.Println("VERIF-RESULT: not-reproduced")
		}
	}
	fmt.Println("VERIF-END")
}
