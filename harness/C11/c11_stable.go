package expressions

//verif:dir internal/language/expressions
//verif:stub (*github.com/tucats/ego/internal/language/bytecode.Context).Run = c11sRun
//verif:stub (*github.com/tucats/ego/internal/language/bytecode.Context).Result = c11sResult
//verif:note this harness lives in package expressions only because that package may import both the compiler (for the native twin) and runtime/sort without an import cycle
//verif:bound sort.SliceStable on one fixed 40-element int array with 10 distinct keys (four ties each), the comparator looking at the key only; the order in which an unstable sort leaves ties is arbitrary (a solver choice per tie)
//verif:assume under the engine the Ego comparator callback (a VM run per comparison) is replaced by the same comparison done natively on the array being sorted; the native twin runs the whole thing as an Ego program through the real compiler and VM
//verif:outside other comparators and element types; errors raised by the comparator

import (
	"github.com/tucats/ego/internal/defs"
	"github.com/tucats/ego/internal/language/bytecode"
	"github.com/tucats/ego/internal/language/compiler"
	"github.com/tucats/ego/internal/language/data"
	"github.com/tucats/ego/internal/language/symbols"
	egosort "github.com/tucats/ego/internal/runtime/sort"
	sym "github.com/tucats/ego/internal/zzverif/sym"
)

var (
	c11sArray *data.Array
	c11sLess  bool
)

// c11sRun stands for one run of the comparator func(i, j int) bool { return a[i]/100 < a[j]/100 }.
func c11sRun(c *bytecode.Context) error {
	v, ok := c.GetSymbols().Get(defs.ArgumentListVariable)
	if !ok {
		return nil
	}
	args := v.(*data.Array)
	iv, _ := args.Get(0)
	jv, _ := args.Get(1)
	i, _ := data.Int(iv)
	j, _ := data.Int(jv)
	base := c11sArray.BaseArray()
	x, _ := data.Int(base[i])
	y, _ := data.Int(base[j])
	c11sLess = x/100 < y/100
	return nil
}
func c11sResult(c *bytecode.Context) any { return c11sLess }

func c11sInput() []any {
	out := make([]any, 40)
	for i := range out {
		out[i] = ((i*7)%10)*100 + i // key*100 + original position: ten keys, four ties each
	}
	return out
}

func VerifC11_stableSortKeepsTiesInOrder() {
	const stable, name = true, "SliceStable"
	var got []any
	if sym.Symbolic() {
		c11sArray = data.NewArrayFromInterfaces(data.IntType, c11sInput()...)
		f, _ := egosort.SortPackage.Get(name)
		fn := f.(data.Function).Value.(func(*symbols.SymbolTable, data.List) (any, error))
		_, err := fn(symbols.NewSymbolTable("verif"), data.NewList(c11sArray, bytecode.New("less")))
		sym.Assert(err == nil, "the sort reported an error")
		got = c11sArray.BaseArray()
	} else {
		s := symbols.NewRootSymbolTable("verif")
		prog := "import \"sort\"\na := []int{"
		for i, v := range c11sInput() {
			if i > 0 {
				prog += ", "
			}
			prog += data.String(v)
		}
		prog += "}\nsort." + name + "(a, func(i, j int) bool { return a[i]/100 < a[j]/100 })\n"
		if err := compiler.RunString("verif", s, prog); err != nil {
			sym.Assert(false, "the sort reported an error: "+err.Error())
			return
		}
		v, _ := s.Get("a")
		got = v.(*data.Array).BaseArray()
	}
	sym.Reach("sorted")
	sym.Assert(len(got) == 40, "the sorted array has a different length")
	if len(got) == 40 {
		first, _ := data.Int(got[0])
		last, _ := data.Int(got[39])
		sym.Observe("first", first)
		sym.Observe("last", last)
	}
	for i := 0; i+1 < len(got); i++ {
		x, _ := data.Int(got[i])
		y, _ := data.Int(got[i+1])
		sym.Assert(x/100 <= y/100, "the result of a sort is not in ascending key order")
		if stable && x/100 == y/100 {
			sym.Assert(x < y, "sort.SliceStable changed the relative order of two elements the comparator treats as equal")
		}
	}
}
