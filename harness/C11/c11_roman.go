package strconv

//verif:dir internal/runtime/strconv
//verif:bound strconv.Itor on every int (full width) and strconv.Rtoi of its result, written as produced (thorough: also in lower case or padded with blanks): the whole domain 1..3999 is covered, and everything outside it must be refused
//verif:outside Rtoi on strings that Itor never produces (non-canonical numerals)

import (
	"strings"

	"github.com/tucats/ego/internal/language/data"
	sym "github.com/tucats/ego/internal/zzverif/sym"
)

func VerifC11_romanNumeralsRoundTrip() {
	n := sym.Int("n")
	r, err := doIntToRoman(nil, data.NewList(n))
	sym.Assert(err == nil, "Itor returned a Go error instead of an error value")
	list, ok := r.(data.List)
	sym.Assert(ok && list.Len() == 2, "Itor did not return a (string, error) pair")
	if !ok || list.Len() != 2 {
		return
	}
	if n < 1 || n > 3999 {
		sym.Reach("refused")
		sym.Assert(list.Get(1) != nil, "Itor accepted a number that has no Roman numeral")
		return
	}
	sym.Reach("formatted")
	sym.Assert(list.Get(1) == nil, "Itor refused a number between 1 and 3999")
	text := data.String(list.Get(0))
	if sym.Thorough() {
		switch sym.Choice("spelling", 3) {
		case 1:
			text = strings.ToLower(text)
		case 2:
			text = " " + text + " "
		}
	}
	back, err := doRomanToInt(nil, data.NewList(text))
	sym.Assert(err == nil, "Rtoi returned a Go error instead of an error value")
	bl, ok := back.(data.List)
	sym.Assert(ok && bl.Len() == 2 && bl.Get(1) == nil, "Rtoi refused a numeral that Itor produced")
	if ok && bl.Len() == 2 && bl.Get(1) == nil {
		v, _ := data.Int(bl.Get(0))
		sym.Assert(v == n, "Rtoi(Itor(n)) is not n")
	}
}
