package sort

//verif:dir internal/runtime/sort
//verif:bound sort.Ints / Int32s / Int64s / Bytes / Strings and the generic sort.Sort on arrays of 1..3 (quick) / 1..4 (thorough) elements: arbitrary full-width integers, arbitrary bytes, arbitrary strings of 0..2 bytes
//verif:assume sort.Slice is the engine's model (an arbitrary-order-of-ties insertion sort); sort.Strings runs from the standard library's source
//verif:outside float arrays (no floating-point theory), arrays of other element types, longer arrays

import (
	"github.com/tucats/ego/internal/language/data"
	sym "github.com/tucats/ego/internal/zzverif/sym"
)

func c11Len() int {
	n := 3
	if sym.Thorough() {
		n = 4
	}
	return 1 + sym.Choice("length", n)
}

func c11CheckInts(in []int64, out *data.Array, err error) {
	sym.Reach("sorted")
	sym.Assert(err == nil, "sorting an integer array reported an error")
	if err != nil || out == nil {
		return
	}
	sym.Assert(out.Len() == len(in), "the sorted array has a different length")
	got := make([]int64, out.Len())
	for i := range got {
		v, _ := out.Get(i)
		got[i], _ = data.Int64(v)
	}
	for i := 0; i+1 < len(got); i++ {
		sym.Assert(got[i] <= got[i+1], "the result of a sort is not in ascending order")
	}
	for _, x := range in {
		a, b := 0, 0
		for _, y := range in {
			if y == x {
				a++
			}
		}
		for _, y := range got {
			if y == x {
				b++
			}
		}
		sym.Assert(a == b, "the result of a sort is not a permutation of its input")
	}
}

func VerifC11_integerSorts() {
	n := c11Len()
	kind := sym.Choice("elementType", 4)
	in := make([]int64, n)
	elems := make([]any, n)
	for i := range in {
		switch kind {
		case 0:
			v := sym.Int("element")
			in[i], elems[i] = int64(v), v
		case 1:
			v := sym.Int32("element")
			in[i], elems[i] = int64(v), v
		case 2:
			v := sym.Int64("element")
			in[i], elems[i] = v, v
		default:
			v := sym.Byte("element")
			in[i], elems[i] = int64(v), v
		}
	}
	var arr *data.Array
	var res any
	var err error
	viaGeneric := sym.Bool("viaGenericSort")
	switch kind {
	case 0:
		arr = data.NewArrayFromInterfaces(data.IntType, elems...)
		res, err = commonSort(data.NewList(arr), data.IntKind)
	case 1:
		arr = data.NewArrayFromInterfaces(data.Int32Type, elems...)
		res, err = commonSort(data.NewList(arr), data.Int32Kind)
	case 2:
		arr = data.NewArrayFromInterfaces(data.Int64Type, elems...)
		res, err = commonSort(data.NewList(arr), data.Int64Kind)
	default:
		bs := make([]byte, n)
		for i := range bs {
			bs[i] = elems[i].(byte)
		}
		arr = data.NewArrayFromBytes(bs...)
		res, err = commonSort(data.NewList(arr), data.ByteKind)
	}
	if viaGeneric {
		// sort.Sort(a) on the already sorted array must leave it sorted
		res, err = doGenericSort(data.NewList(arr))
	}
	out, _ := res.(*data.Array)
	c11CheckInts(in, out, err)
}

func VerifC11_stringSort() {
	n := c11Len()
	in := make([]string, n)
	for i := range in {
		in[i] = sym.String("element", 2)
	}
	arr := data.NewArrayFromStrings(in...)
	res, err := commonSort(data.NewList(arr), data.StringKind)
	sym.Reach("sorted")
	sym.Assert(err == nil, "sorting a string array reported an error")
	out, _ := res.(*data.Array)
	if err != nil || out == nil {
		return
	}
	sym.Assert(out.Len() == n, "the sorted array has a different length")
	got := make([]string, out.Len())
	for i := range got {
		v, _ := out.Get(i)
		got[i] = data.String(v)
	}
	for i := 0; i+1 < len(got); i++ {
		sym.Assert(got[i] <= got[i+1], "the result of a sort is not in ascending order")
	}
	for _, x := range in {
		a, b := 0, 0
		for _, y := range in {
			if y == x {
				a++
			}
		}
		for _, y := range got {
			if y == x {
				b++
			}
		}
		sym.Assert(a == b, "the result of a sort is not a permutation of its input")
	}
}
