package bytecode

//verif:dir internal/language/bytecode
//verif:include C01/c01_helpers.go
//verif:include C03/c03_increment.go
//verif:bound per peephole rule, the matched instruction pattern and its replacement are executed by the real instruction handlers from identical VM states, with the operands captured by the rule's placeholders symbolic: integer operands of any two types among int8 int16 int32 int64 int uint8 uint16 uint32 (full-width values), each constant or not; every type-checking mode. Rules covered: the four constant folds (tryConstantArithmetic; operands: literal constants of type int, int64 or int32 as the compiler emits them), the six compare-with-constant rules, Constant increment, Store to null variable
//verif:outside the pattern matcher and Patch address arithmetic on whole programs, registers, the global-reference cache, slot allocation sizes, the remaining structural rules (stack markers, AtLine, PopScope, CreateAndStore, StoreIndex), floating point

import (
	"github.com/tucats/ego/internal/language/data"
	sym "github.com/tucats/ego/internal/zzverif/sym"
)

func c02Operand(name string, k int, constant bool) any {
	v := c01Int(name, k)
	if constant {
		return data.Constant(v)
	}
	return v
}

// VerifC02_constantFoldRules: Push v1; Push v2; Add|Sub|Mul  versus  Push fold(v1,v2)
func VerifC02_constantFoldRules() {
	// the operands of a Push are what the compiler emits for a literal: a
	// constant of type int, int64 (literal beyond 32 bits) or int32 (rune)
	lit := []int{4, 3, 2}
	k := lit[sym.Choice("type1", 3)]
	j := lit[sym.Choice("type2", 3)]
	ops := []struct {
		op Opcode
		fn func(*Context, any) error
	}{{Add, addByteCode}, {Sub, subtractByteCode}, {Mul, multiplyByteCode}, {Div, divideByteCode}}
	op := ops[sym.Choice("op", len(ops))]
	mode := sym.Choice("mode", 3)
	v1 := c02Operand("v1", k, true)
	v2 := c02Operand("v2", j, true)
	folded, ok := tryConstantArithmetic(op.op, v1, v2)
	sym.Reach("tried-fold")
	if !ok {
		return // the optimizer falls back to running the fragment itself
	}
	sym.Reach("folded")
	c := c01Context(mode)
	_ = pushByteCode(c, v1)
	_ = pushByteCode(c, v2)
	err := op.fn(c, nil)
	sym.Assert(err == nil, "constant folding produced a value for an expression that fails when executed unoptimized")
	if err != nil {
		return
	}
	got, _ := c.Pop()
	sym.Assert(got == folded, "constant folding produced a different value or type than executing the instructions")
}

var c02Cmp = []func(*Context, any) error{lessThanByteCode, lessThanOrEqualByteCode, greaterThanByteCode, greaterThanOrEqualByteCode, equalByteCode, notEqualByteCode}

// VerifC02_compareWithConstantRules: Push value; Cmp  versus  Cmp [value]
func VerifC02_compareWithConstantRules() {
	k := sym.Choice("type1", 8)
	j := sym.Choice("type2", 8)
	fn := c02Cmp[sym.Choice("op", len(c02Cmp))]
	mode := sym.Choice("mode", 3)
	left := c02Operand("left", k, sym.Bool("leftconst"))
	value := c02Operand("value", j, sym.Bool("valueconst"))
	c1 := c01Context(mode)
	_ = c1.push(left)
	_ = pushByteCode(c1, value)
	err1 := fn(c1, nil)
	c2 := c01Context(mode)
	_ = c2.push(left)
	err2 := fn(c2, []any{value})
	sym.Reach("executed")
	sym.Assert((err1 == nil) == (err2 == nil), "a comparison with a constant fails in one of its two instruction forms only")
	if err1 == nil && err2 == nil {
		r1, _ := c1.Pop()
		r2, _ := c2.Pop()
		sym.Assert(r1 == r2, "a comparison with a constant gives different results in its two instruction forms")
		sym.Assert(c1.stackPointer == c2.stackPointer, "the two forms leave different stack depths")
	}
}

// VerifC02_constantIncrementRule: Load x; Push k; Add; Store x  versus  Increment [x, k]
func VerifC02_constantIncrementRule() {
	VerifC03_incrementFormsAgree()
}

// VerifC02_storeToNullVariableRule: Store "_"  versus  Drop
func VerifC02_storeToNullVariableRule() {
	k := sym.Choice("type", 8)
	v := c02Operand("v", k, sym.Bool("const"))
	mode := sym.Choice("mode", 3)
	c1 := c03SymCtx(mode, "y", 1)
	_ = c1.push(v)
	err1 := storeByteCode(c1, "_")
	c2 := c03SymCtx(mode, "y", 1)
	_ = c2.push(v)
	err2 := dropByteCode(c2, nil)
	sym.Reach("executed")
	sym.Assert((err1 == nil) == (err2 == nil) && c1.stackPointer == c2.stackPointer, "Store to the null variable and Drop differ")
}

// VerifC02_registerStoreMatchesNamedStore: with local-variable registers on,
// `x = v` is StoreRegister <slot>; with them off it is Store "x". Both must
// accept/reject the same values and leave the same value and type in x.
func VerifC02_registerStoreMatchesNamedStore() {
	tOld := sym.Choice("variableType", 8)
	tNew := sym.Choice("valueType", 8)
	mode := sym.Choice("mode", 3)
	old := c01Int("old", tOld)
	v := c02Operand("v", tNew, sym.Bool("const"))

	c1 := c03SymCtx(mode, "x", old)
	_ = c1.push(v)
	err1 := storeByteCode(c1, "x")

	c2 := c03SymCtx(mode, "y", 0)
	c2.symbols.AllocateLocals([]string{"x"})
	sym.Assert(c2.symbols.LocalsBank() != nil && c2.symbols.LocalsBank().SetRegister(0, old), "could not set up the register bank")
	_ = c2.push(v)
	err2 := storeRegisterByteCode(c2, 0)
	sym.Reach("executed")
	sym.Assert((err1 == nil) == (err2 == nil), "an assignment is accepted with registers on and rejected with them off (or the reverse)")
	if err1 == nil && err2 == nil {
		v1, _ := c1.get("x")
		v2, _ := c2.symbols.LocalsBank().GetRegister(0)
		sym.Assert(v1 == v2, "an assignment leaves a different value or type with registers on and off")
	}
}
