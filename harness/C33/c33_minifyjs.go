package javascript

//verif:dir internal/util/javascript
//verif:bound script text over the alphabet {a b $ _ 0 1 . + - * / = ; ( ) , " space newline}, len<=5 (quick) / <=6 (thorough), ending in ';'
//verif:bound a binary + or - followed after white space by a prefix + - ++ -- (operator adjacency), renaming on or off
//verif:assume the script is a sentence of the small certainly-valid, semicolon-terminated expression-statement language recognised by jsValid (see the grammar in the harness); renaming is off (Minify(src,false))
//verif:outside execution semantics (no JavaScript engine in the image), local renaming, template literals, regex literals, ASI, scripts longer than the bound or outside the alphabet
//verif:summarize github.com/tucats/ego/internal/util/javascript.isIdentStart
//verif:summarize github.com/tucats/ego/internal/util/javascript.isIdentCont
//verif:summarize github.com/tucats/ego/internal/util/javascript.isDigit
//verif:summarize github.com/tucats/ego/internal/util/javascript.jsInAlphabet
//verif:summarize github.com/tucats/ego/internal/util/javascript.jsIdent
//verif:summarize github.com/tucats/ego/internal/util/javascript.jsWS

import (
	sym "github.com/tucats/ego/internal/zzverif/sym"
)

func jsInAlphabet(c byte) bool {
	return c == 'a' || c == 'b' || c == '$' || c == '_' || c == '0' || c == '1' || c == '.' || c == '+' || c == '-' ||
		c == '*' || c == '/' || c == '=' || c == ';' || c == '(' || c == ')' || c == ',' || c == '"' || c == ' ' || c == '\n'
}
func jsIdent(c byte) bool { return c == 'a' || c == 'b' || c == '$' || c == '_' }
func jsWS(c byte) bool    { return c == ' ' || c == '\n' }

// jsRefTok: 'i' identifier, 'n' number, 's' string, 'p' punctuator.
type jsRefTok struct {
	kind byte
	text string
	nl   bool // a line terminator (or a comment containing one) precedes the token
}

// jsRefTokens tokenizes per ECMAScript for the alphabet above, assuming no
// regex literals; ok=false when the text is not lexically clean.
func jsRefTokens(s []byte) (out []jsRefTok, ok bool) {
	i, n := 0, len(s)
	nl := false
	emit := func(k byte, text string) {
		out = append(out, jsRefTok{k, text, nl})
		nl = false
	}
	for i < n {
		c := s[i]
		switch {
		case jsWS(c):
			if c == '\n' {
				nl = true
			}
			i++
		case c == '/' && i+1 < n && s[i+1] == '/':
			for i < n && s[i] != '\n' {
				i++
			}
		case c == '/' && i+1 < n && s[i+1] == '*':
			j := i + 2
			for j+1 < n && !(s[j] == '*' && s[j+1] == '/') {
				j++
			}
			if j+1 >= n {
				return nil, false // unterminated comment
			}
			for k := i; k < j; k++ {
				if s[k] == '\n' {
					nl = true
				}
			}
			i = j + 2
		case c == '"':
			j := i + 1
			for j < n && s[j] != '"' {
				if s[j] == '\n' {
					return nil, false
				}
				j++
			}
			if j >= n {
				return nil, false
			}
			emit('s', string(s[i:j+1]))
			i = j + 1
		case c == '0' || c == '1' || (c == '.' && i+1 < n && (s[i+1] == '0' || s[i+1] == '1')):
			j := i
			for j < n && (s[j] == '0' || s[j] == '1') {
				j++
			}
			if j < n && s[j] == '.' {
				j++
				for j < n && (s[j] == '0' || s[j] == '1') {
					j++
				}
			}
			// legacy octal-like and glued forms are not clean
			if j-i > 1 && s[i] == '0' && s[i+1] != '.' {
				return nil, false
			}
			if j < n && (jsIdent(s[j]) || s[j] == '.') {
				return nil, false
			}
			emit('n', string(s[i:j]))
			i = j
		case jsIdent(c):
			j := i
			for j < n && (jsIdent(s[j]) || s[j] == '0' || s[j] == '1') {
				j++
			}
			emit('i', string(s[i:j]))
			i = j
		default:
			// longest-match punctuators over the alphabet
			if i+1 < n {
				two := string(s[i : i+2])
				switch two {
				case "==", "++", "--", "+=", "-=", "*=", "/=", "**":
					if two == "==" && i+2 < n && s[i+2] == '=' {
						emit('p', "===")
						i += 3
						continue
					}
					if two == "**" && i+2 < n && s[i+2] == '=' {
						emit('p', "**=")
						i += 3
						continue
					}
					emit('p', two)
					i += 2
					continue
				}
			}
			emit('p', string(s[i:i+1]))
			i++
		}
	}
	return out, true
}

// jsValid recognises a small language every sentence of which is certainly
// valid ECMAScript (syntactically, including the early errors for assignment
// targets) and semicolon-terminated without relying on ASI:
//
//	Script  := (Expr? ';')+
//	Expr    := Assign (',' Assign)*
//	Assign  := (LValue ('=' | '+=' | '-=' | '*=' | '/='))* Arith
//	Arith   := Operand (('+' | '-' | '*' | '/' | '==' | '===') Operand)*
//	Operand := ('+' | '-')* ( ('++' | '--') LValue | Primary Suffix* | LValue ('++' | '--') )
//	LValue  := ident ('.' ident)*
//	Primary := ident | number | string | '(' Expr ')'
//	Suffix  := '.' ident | '(' (Assign (',' Assign)*)? ')'
//
// with the restriction that no line terminator precedes '++' or '--'.
type jsParser struct {
	ts  []jsRefTok
	pos int
}

func (p *jsParser) peek() string {
	if p.pos < len(p.ts) && p.ts[p.pos].kind == 'p' {
		return p.ts[p.pos].text
	}
	return ""
}
func (p *jsParser) kind() byte {
	if p.pos < len(p.ts) {
		return p.ts[p.pos].kind
	}
	return 0
}

// lvalueLen returns the number of tokens of an LValue starting at pos, or 0.
func (p *jsParser) lvalueLen(pos int) int {
	if pos >= len(p.ts) || p.ts[pos].kind != 'i' {
		return 0
	}
	k := pos + 1
	for k+1 < len(p.ts) && p.ts[k].kind == 'p' && p.ts[k].text == "." && p.ts[k+1].kind == 'i' {
		k += 2
	}
	return k - pos
}

func isAssignOp(t jsRefTok) bool {
	return t.kind == 'p' && (t.text == "=" || t.text == "+=" || t.text == "-=" || t.text == "*=" || t.text == "/=")
}

func (p *jsParser) expr(depth int) bool {
	if !p.assign(depth) {
		return false
	}
	for p.peek() == "," {
		p.pos++
		if !p.assign(depth) {
			return false
		}
	}
	return true
}

func (p *jsParser) assign(depth int) bool {
	for {
		n := p.lvalueLen(p.pos)
		if n > 0 && p.pos+n < len(p.ts) && isAssignOp(p.ts[p.pos+n]) {
			p.pos += n + 1
			continue
		}
		break
	}
	if !p.operand(depth) {
		return false
	}
	for {
		op := p.peek()
		if op == "+" || op == "-" || op == "*" || op == "/" || op == "==" || op == "===" {
			p.pos++
			if !p.operand(depth) {
				return false
			}
			continue
		}
		return true
	}
}

func (p *jsParser) operand(depth int) bool {
	for p.peek() == "+" || p.peek() == "-" {
		p.pos++
	}
	if op := p.peek(); op == "++" || op == "--" {
		if p.ts[p.pos].nl {
			return false
		}
		p.pos++
		n := p.lvalueLen(p.pos)
		if n == 0 {
			return false
		}
		p.pos += n
		// a call or another update may not follow
		nx := p.peek()
		return nx != "(" && nx != "++" && nx != "--" && nx != "."
	}
	if n := p.lvalueLen(p.pos); n > 0 && p.pos+n < len(p.ts) && p.ts[p.pos+n].kind == 'p' && (p.ts[p.pos+n].text == "++" || p.ts[p.pos+n].text == "--") {
		if p.ts[p.pos+n].nl {
			return false
		}
		p.pos += n + 1
		nx := p.peek()
		return nx != "(" && nx != "++" && nx != "--" && nx != "."
	}
	switch p.kind() {
	case 'i', 'n', 's':
		p.pos++
	case 'p':
		if p.peek() != "(" || depth > 2 {
			return false
		}
		p.pos++
		if !p.expr(depth + 1) {
			return false
		}
		if p.peek() != ")" {
			return false
		}
		p.pos++
	default:
		return false
	}
	for {
		switch p.peek() {
		case ".":
			if p.pos+1 >= len(p.ts) || p.ts[p.pos+1].kind != 'i' {
				return false
			}
			p.pos += 2
		case "(":
			if depth > 2 {
				return false
			}
			p.pos++
			if p.peek() != ")" {
				if !p.assign(depth + 1) {
					return false
				}
				for p.peek() == "," {
					p.pos++
					if !p.assign(depth + 1) {
						return false
					}
				}
			}
			if p.peek() != ")" {
				return false
			}
			p.pos++
		case "++", "--":
			return false // update of a non-lvalue, or ASI territory
		default:
			return true
		}
	}
}

func jsValid(ts []jsRefTok) bool {
	if len(ts) == 0 {
		return false
	}
	p := &jsParser{ts: ts}
	for p.pos < len(ts) {
		if p.peek() != ";" {
			if !p.expr(0) {
				return false
			}
			if p.peek() != ";" {
				return false
			}
		}
		p.pos++
	}
	return true
}

func jsSameTokens(a, b []jsRefTok) bool {
	if len(a) != len(b) {
		return false
	}
	for i := range a {
		if a[i].kind != b[i].kind || a[i].text != b[i].text {
			return false
		}
	}
	return true
}

// Known classes (see /verif/known_findings.jsonl).
func jsNumberThenDot(ts []jsRefTok) bool {
	for i := 1; i < len(ts); i++ {
		if ts[i].text == "." && ts[i].kind == 'p' && ts[i-1].kind == 'n' {
			return true
		}
	}
	return false
}

func VerifC33_tokensPreserved() {
	n := 5
	if sym.Thorough() {
		n = 6
	}
	sym.Bound("sourceBytes", n)
	src := sym.Bytes("js", n)
	for i := range src {
		sym.Assume(jsInAlphabet(src[i]))
	}
	in := append([]byte(nil), src...)
	a, ok := jsRefTokens(in)
	sym.Assume(ok)
	sym.Assume(jsValid(a))
	sym.Known("C33-number-space-dot", jsNumberThenDot(a))
	out := Minify(src, false)
	sym.Reach("minified")
	sym.Observe("out", string(out))
	b, ok2 := jsRefTokens(out)
	sym.Assert(ok2 && jsSameTokens(a, b), "Minify(src,false) changed the JavaScript token sequence")
	sym.Assert(string(Minify(out, false)) == string(out), "Minify is not idempotent on its own output")
}

// VerifC33_operatorAdjacency: a binary + or - followed, after white space, by a
// unary or prefix operator: removing the white space must not let the two
// operators run together into a different one (a+ ++b is not a++ +b).
func VerifC33_operatorAdjacency() {
	o1 := []string{"+", "-"}[sym.Choice("binary", 2)]
	o2 := []string{"+", "-", "++", "--"}[sym.Choice("prefix", 4)]
	sep := []string{" ", "\n", "  "}[sym.Choice("space", 3)]
	src := []byte("a" + o1 + sep + o2 + "b;")
	a, ok := jsRefTokens(append([]byte(nil), src...))
	sym.Assume(ok)
	out := Minify(src, sym.Bool("renaming"))
	sym.Reach("minified")
	sym.Observe("out", string(out))
	b, ok2 := jsRefTokens(out)
	sym.Assert(ok2 && jsSameTokens(a, b), "Minify changed the JavaScript token sequence")
}
