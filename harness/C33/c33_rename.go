package javascript

//verif:dir internal/util/javascript
//verif:bound Minify with renaming on, for four script shapes (a function with one or two parameters, a block-scoped let, a function whose body calls another name) in which the two free names G and H are arbitrary one-letter identifiers a..f and the locals have long fixed names
//verif:outside every other script shape; the scoping rules of collectLocals beyond these shapes; execution semantics

import (
	sym "github.com/tucats/ego/internal/zzverif/sym"
)

func c33Letter(label string) string {
	s := sym.StringN(label, 1)
	sym.Assume(s[0] >= 'a' && s[0] <= 'f')
	return s
}

// c33Idents lists the identifier tokens of a script, in order.
func c33Idents(src []byte) []string {
	var out []string
	for _, t := range tokenize(src) {
		if t.kind == tkIdentifier {
			out = append(out, t.value)
		}
	}
	return out
}

// VerifC33_renamedLocalsNeverCaptureOtherNames: after renaming, every
// occurrence of a local carries one new name, distinct locals carry distinct
// names, and no new name equals a name the script uses for something else.
func VerifC33_renamedLocalsNeverCaptureOtherNames() {
	sym.NondetMapOrder() // renameLocals ranges over a map of locals: every order is explored
	g, h := c33Letter("G"), c33Letter("H")
	var src string
	var shape []int // per identifier token: 0 = keep as written, k>0 = occurrence of local k
	switch sym.Choice("shape", 4) {
	case 0:
		src = "function total(count){return count*" + g + "+" + h + ";}"
		shape = []int{0, 0, 1, 0, 1, 0, 0}
	case 1:
		src = "function total(count,extra){return count*" + g + "+extra*" + h + ";}"
		shape = []int{0, 0, 1, 2, 0, 1, 0, 2, 0}
	case 2:
		src = "function run(){let value=" + g + ";" + h + "(value);}"
		shape = []int{0, 0, 0, 1, 0, 0, 1}
	default:
		src = "function apply(callback){return callback(" + g + "," + h + ");}"
		shape = []int{0, 0, 1, 0, 1, 0, 0}
	}
	before := c33Idents([]byte(src))
	out := Minify([]byte(src), true)
	after := c33Idents(out)
	sym.Reach("renamed")
	sym.Observe("outputLength", len(out)) // the text itself depends on map iteration order (which local gets which name)
	sym.Assert(len(after) == len(before) && len(before) == len(shape), "renaming changed the number of identifiers")
	if len(after) != len(before) || len(before) != len(shape) {
		return
	}
	names := map[int]string{}
	for i, k := range shape {
		if k == 0 {
			sym.Assert(after[i] == before[i], "a name that is not a local of the function was renamed")
			continue
		}
		if n, seen := names[k]; seen {
			sym.Assert(after[i] == n, "two occurrences of one local were given different names")
		} else {
			names[k] = after[i]
		}
	}
	for i, k := range shape {
		if k != 0 {
			continue
		}
		for _, n := range names {
			sym.Assert(after[i] != n, "a local was renamed to a name the script already uses for something else")
		}
	}
	if len(names) == 2 {
		sym.Assert(names[1] != names[2], "two different locals were given the same name")
	}
}
