package parsing

//verif:dir internal/server/tables/parsing
//verif:bound one filter term OP(a, V) with OP in {EQ, LT, GE} (and NOT(EQ(a, V)), AND(EQ(a,V),EQ(b,"x"))) given to the real filterClause as the token list the Ego tokenizer produces for it, where V is a string token with arbitrary content of 0..3 bytes, a + or - sign followed by such a string token, by the integer 7 or by the name b, or a character-literal token '..' with arbitrary content of 0..2 bytes; content bytes over {a 1 ' " ; - ( ) = space backslash}
//verif:assume the Ego tokenizer (text/scanner) is not run: the token lists are built directly in the shapes it produces for these filters
//verif:outside CONTAINS/HAS filters, nil comparisons, the Ego dialect of the generator (used for in-memory filtering), filters of more than two terms, the meaning of the filter on data

import (
	"github.com/tucats/ego/internal/language/tokenizer"
	sym "github.com/tucats/ego/internal/zzverif/sym"
)

var c14fAlphabet = func() (t [256]bool) {
	for _, c := range []byte("a1'\";-()= \\") {
		t[c] = true
	}
	return
}()

func c14fText(label string, max int) string {
	s := sym.String(label, max)
	for i := 0; i < len(s); i++ {
		sym.Assume(c14fAlphabet[s[i]])
	}
	return s
}

// c14fLex: a reference lexer for the generated WHERE text. Kinds: 's' complete
// string literal, 'q' quoted identifier, 'w' word or number, 'o' comparison
// operator or sign, 'p' parenthesis or comma, 'x' anything else (unterminated
// literal, semicolon, comment opener, stray quote ...).
func c14fLex(s string) []c14Tok {
	var out []c14Tok
	i := 0
	for i < len(s) {
		c := s[i]
		switch {
		case c == ' ':
			i++
		case c == '\'' || c == '"':
			j := i + 1
			closed := false
			for j < len(s) {
				if s[j] == c {
					if j+1 < len(s) && s[j+1] == c {
						j += 2
						continue
					}
					closed = true
					break
				}
				j++
			}
			if !closed {
				return append(out, c14Tok{'x', s[i:]})
			}
			k := byte('s')
			if c == '"' {
				k = 'q'
			}
			out = append(out, c14Tok{k, s[i : j+1]})
			i = j + 1
		case c14IsWord(c) || c == '.':
			j := i
			for j < len(s) && (c14IsWord(s[j]) || s[j] == '.') {
				j++
			}
			out = append(out, c14Tok{'w', s[i:j]})
			i = j
		case c == '-' && i+1 < len(s) && s[i+1] == '-':
			return append(out, c14Tok{'x', s[i:]})
		case c == '=' || c == '<' || c == '>' || c == '-' || c == '+':
			j := i + 1
			if j < len(s) && s[j] == '=' && c != '=' && c != '-' && c != '+' {
				j++
			}
			out = append(out, c14Tok{'o', s[i:j]})
			i = j
		case c == '(' || c == ')' || c == ',':
			out = append(out, c14Tok{'p', s[i : i+1]})
			i++
		default:
			out = append(out, c14Tok{'x', s[i : i+1]})
			i++
		}
	}
	return out
}

// c14fComparison: ( "name" op value ) with value a single literal, word or
// quoted identifier, optionally signed; returns the index after it.
func c14fComparison(ts []c14Tok, i int) (int, bool) {
	if i+3 >= len(ts) || ts[i].text != "(" || ts[i+1].kind != 'q' || ts[i+2].kind != 'o' {
		return i, false
	}
	if t := ts[i+2].text; t == "-" || t == "+" {
		return i, false
	}
	j := i + 3
	if ts[j].kind == 'o' && (ts[j].text == "-" || ts[j].text == "+") {
		j++
		// a signed number, or a negated column: a single word either way
		if j >= len(ts) || ts[j].kind != 'w' {
			return i, false
		}
	} else if ts[j].kind != 's' && ts[j].kind != 'w' && ts[j].kind != 'q' {
		return i, false
	}
	j++
	if j >= len(ts) || ts[j].text != ")" {
		return i, false
	}
	return j + 1, true
}

func VerifC14_filterValueStaysOneLiteral() {
	// the value token(s)
	var value []tokenizer.Token
	switch sym.Choice("valueForm", 5) {
	case 0:
		value = []tokenizer.Token{tokenizer.NewStringToken(c14fText("text", 3))}
	case 1:
		sign := []string{"+", "-"}[sym.Choice("sign", 2)]
		value = []tokenizer.Token{tokenizer.NewSpecialToken(sign), tokenizer.NewStringToken(c14fText("text", 3))}
	case 2:
		sign := []string{"+", "-"}[sym.Choice("sign", 2)]
		value = []tokenizer.Token{tokenizer.NewSpecialToken(sign), tokenizer.NewIntegerToken("7")}
	case 3:
		sign := []string{"+", "-"}[sym.Choice("sign", 2)]
		value = []tokenizer.Token{tokenizer.NewSpecialToken(sign), tokenizer.NewIdentifierToken("b")}
	default:
		value = []tokenizer.Token{tokenizer.NewToken(tokenizer.ValueTokenClass, "'"+c14fText("char", 2)+"'")}
	}
	id, sp := tokenizer.NewIdentifierToken, tokenizer.NewSpecialToken
	term := func(op, column string, v []tokenizer.Token) []tokenizer.Token {
		out := []tokenizer.Token{id(op), sp("("), id(column), sp(",")}
		out = append(out, v...)
		return append(out, sp(")"))
	}
	var toks []tokenizer.Token
	shape := sym.Choice("shape", 5)
	switch shape {
	case 0, 1, 2:
		toks = term([]string{"EQ", "LT", "GE"}[shape], "a", value)
	case 3:
		toks = append([]tokenizer.Token{id("NOT"), sp("(")}, append(term("EQ", "a", value), sp(")"))...)
	default:
		toks = append([]tokenizer.Token{id("AND"), sp("(")}, term("EQ", "a", value)...)
		toks = append(toks, sp(","))
		toks = append(toks, term("EQ", "b", []tokenizer.Token{tokenizer.NewStringToken("x")})...)
		toks = append(toks, sp(")"))
	}
	clause, err := filterClause(&tokenizer.Tokenizer{Tokens: toks}, sqlDialect)
	if err != nil {
		sym.Reach("refused")
		return
	}
	sym.Reach("generated")
	sym.Observe("clause", clause)
	ts := c14fLex(clause)
	ok := false
	switch shape {
	case 0, 1, 2:
		var end int
		end, ok = c14fComparison(ts, 0)
		ok = ok && end == len(ts)
	case 3:
		if len(ts) > 0 && ts[0].kind == 'w' && ts[0].text == "NOT" {
			var end int
			end, ok = c14fComparison(ts, 1)
			ok = ok && end == len(ts)
		}
	default:
		if len(ts) > 0 && ts[0].text == "(" {
			end, ok1 := c14fComparison(ts, 1)
			if ok1 && end < len(ts) && ts[end].kind == 'w' && ts[end].text == "AND" {
				end2, ok2 := c14fComparison(ts, end+1)
				ok = ok2 && end2+1 == len(ts) && ts[end2].text == ")"
			}
		}
	}
	sym.Assert(ok, "the generated WHERE text is not the comparison that was asked for: a filter value left its literal or the clause is malformed")
}
