package parsing

//verif:dir internal/server/tables/parsing
//verif:summarize github.com/tucats/ego/internal/server/tables/parsing.c14Alphabet
//verif:summarize github.com/tucats/ego/internal/server/tables/parsing.c14IsWord
//verif:bound user-controlled request parameters as arbitrary bytes: table / user / column names <=4 (quick) / <=5 (thorough) bytes, sort and columns query values <=5 / <=7 bytes and limit and start values <=2 bytes over {0-9 x - ; space '} over a 17-byte alphabet of SQL-relevant characters (plus digits for paging)
//verif:assume the reference SQL lexer in this file defines the statement shape: a user-supplied string may only end up inside one double-quoted identifier (with "" doubling), or be a bare word of [A-Za-z0-9_], a number, * or count(...) of those
//verif:outside the meaning of filters on data and the executed statement as a whole (needs the database); JSON row values (bound as $n parameters); filter expressions (filterClause, via the Ego tokenizer); the URL parser's percent-decoding beyond the bound

import (
	"net/url"
	"strings"

	egostrings "github.com/tucats/ego/internal/util/strings"
	sym "github.com/tucats/ego/internal/zzverif/sym"
)

// ---- reference SQL lexer

type c14Tok struct {
	kind byte // 'q' quoted identifier, 'w' bare word, 'n' number, 'p' punctuation, 'x' anything dangerous
	text string
}

func c14IsWord(c byte) bool {
	return c >= 'a' && c <= 'z' || c >= 'A' && c <= 'Z' || c >= '0' && c <= '9' || c == '_'
}

func c14Lex(s string) []c14Tok {
	var out []c14Tok
	i := 0
	for i < len(s) {
		c := s[i]
		switch {
		case c == ' ':
			i++
		case c == '"':
			j := i + 1
			closed := false
			for j < len(s) {
				if s[j] == '"' {
					if j+1 < len(s) && s[j+1] == '"' {
						j += 2
						continue
					}
					closed = true
					break
				}
				j++
			}
			if !closed {
				out = append(out, c14Tok{'x', s[i:]})
				return out
			}
			out = append(out, c14Tok{'q', s[i : j+1]})
			i = j + 1
		case c14IsWord(c):
			j := i
			for j < len(s) && c14IsWord(s[j]) {
				j++
			}
			out = append(out, c14Tok{'w', s[i:j]})
			i = j
		case c == ',' || c == '.' || c == '(' || c == ')' || c == '*':
			out = append(out, c14Tok{'p', s[i : i+1]})
			i++
		default:
			// quotes, semicolons, comment starters, operators, control bytes ...
			out = append(out, c14Tok{'x', s[i : i+1]})
			i++
		}
	}
	return out
}

// c14SafeList: item (',' item)* with item = quoted ident | bare word | * |
// count '(' (quoted ident | bare word | *) ')'; optional trailing words (DESC).
func c14SafeList(ts []c14Tok, allowCount bool, trailing ...string) bool {
	i := 0
	item := func() bool {
		if i >= len(ts) {
			return false
		}
		t := ts[i]
		if t.kind == 'q' || (t.kind == 'p' && t.text == "*") {
			i++
			return true
		}
		if t.kind == 'w' {
			i++
			if allowCount && strings.EqualFold(t.text, "count") && i < len(ts) && ts[i].text == "(" {
				i++
				if i >= len(ts) || !(ts[i].kind == 'q' || ts[i].kind == 'w' || ts[i].text == "*") {
					return false
				}
				i++
				if i >= len(ts) || ts[i].text != ")" {
					return false
				}
				i++
			}
			return true
		}
		return false
	}
	if !item() {
		return false
	}
	for i < len(ts) && ts[i].kind == 'p' && ts[i].text == "," {
		i++
		if !item() {
			return false
		}
	}
	for _, w := range trailing {
		if i < len(ts) && ts[i].kind == 'w' && ts[i].text == w {
			i++
		}
	}
	return i == len(ts)
}

// c14Alphabet: the bytes that matter to SQL text and to the generators' own
// special cases (count(, separators, quotes, comment and statement delimiters).
func c14Alphabet(c byte) bool {
	return c == 'a' || c == 'C' || c == 'c' || c == 'o' || c == 'u' || c == 'n' || c == 't' || c == '(' || c == ')' ||
		c == '*' || c == ',' || c == ' ' || c == '"' || c == ';' || c == '-' || c == '\'' || c == '~'
}

func c14N(quick, thorough int) int {
	if sym.Thorough() {
		return thorough
	}
	return quick
}

// VerifC14_identifierQuoting: SQLIdentifier makes exactly one quoted identifier of any name.
func VerifC14_identifierQuoting() {
	name := sym.String("name", c14N(4, 6))
	out := egostrings.SQLIdentifier(name)
	ts := c14Lex(out)
	sym.Reach("quoted")
	sym.Assert(len(ts) == 1 && ts[0].kind == 'q', "SQLIdentifier output is not one quoted identifier")
	if len(ts) == 1 && ts[0].kind == 'q' {
		body := ts[0].text[1 : len(ts[0].text)-1]
		sym.Assert(strings.ReplaceAll(body, `""`, `"`) == name, "SQLIdentifier does not denote the given name")
	}
}

// VerifC14_tableName: FullName yields quoted identifiers joined by dots.
func VerifC14_tableName() {
	table := sym.String("table", c14N(4, 5))
	user := sym.String("user", 2)
	provider := []string{"sqlite3", "postgres", "other"}[sym.Choice("provider", 3)]
	out, _ := FullName(provider, user, table)
	ts := c14Lex(out)
	sym.Reach("named")
	ok := len(ts) > 0
	for i, t := range ts {
		if i%2 == 0 {
			ok = ok && t.kind == 'q'
		} else {
			ok = ok && t.kind == 'p' && t.text == "."
		}
	}
	sym.Assert(ok && len(ts)%2 == 1, "FullName output is not a dotted list of quoted identifiers")
}

// VerifC14_columnList: the columns= parameter.
func VerifC14_columnList() {
	cols := sym.String("columns", c14N(5, 7))
	for i := 0; i < len(cols); i++ {
		sym.Assume(c14Alphabet(cols[i]))
	}
	sym.Known("C14-count-prefix-column-unquoted", strings.Contains(strings.ToLower(cols), "count("))
	out := ColumnList(cols)
	sym.Reach("listed")
	sym.Assert(c14SafeList(c14Lex(out), true), "ColumnList lets request bytes into the statement outside a quoted identifier")
}

// VerifC14_countColumn: the one expression form ColumnList passes through.
func VerifC14_countColumn() {
	tail := sym.String("tail", c14N(3, 5))
	for i := 0; i < len(tail); i++ {
		sym.Assume(c14Alphabet(tail[i]))
	}
	prefix := []string{"count(", "COUNT(", " count("}[sym.Choice("prefix", 3)]
	sym.Known("C14-count-prefix-column-unquoted", true)
	out := ColumnList(prefix + tail)
	sym.Reach("listed")
	sym.Assert(c14SafeList(c14Lex(out), true), "ColumnList lets request bytes into the statement outside a quoted identifier")
}

// VerifC14_sortList: the sort= / order= parameter.
func VerifC14_sortList() {
	v := sym.String("sort", c14N(4, 6))
	for i := 0; i < len(v); i++ {
		sym.Assume(c14Alphabet(v[i]))
	}
	u := &url.URL{RawQuery: "sort=" + v}
	sym.Known("C14-sort-names-unquoted", true)
	out := SortList(u)
	sym.Reach("sorted")
	if out == "" {
		return
	}
	ok := strings.HasPrefix(out, "ORDER BY ")
	sym.Assert(ok, "SortList output does not start with ORDER BY")
	if ok {
		sym.Assert(c14SafeList(c14Lex(out[len("ORDER BY "):]), false, "DESC"), "SortList lets request bytes into the statement outside a quoted identifier")
	}
}

// VerifC14_paging: limit= and start=.
func VerifC14_paging() {
	lim := sym.String("limit", 2)
	start := sym.String("start", 2)
	for _, v := range []string{lim, start} {
		for i := 0; i < len(v); i++ {
			sym.Assume((v[i] >= '0' && v[i] <= '9') || v[i] == 'x' || v[i] == '-' || v[i] == ';' || v[i] == ' ' || v[i] == '\'')
		}
	}
	u := &url.URL{RawQuery: "limit=" + lim + "&start=" + start}
	out := PagingClauses(u)
	sym.Reach("paged")
	ts := c14Lex(out)
	ok := len(ts) >= 2 && ts[0].text == "LIMIT" && ts[1].kind == 'w' && c14Digits(ts[1].text)
	if len(ts) > 2 {
		rest := ts[2:]
		if len(rest) == 3 && rest[1].kind == 'x' && rest[1].text == "-" {
			rest = []c14Tok{rest[0], rest[2]} // OFFSET -n: an error for the database, not an injection
		}
		ok = ok && len(rest) == 2 && rest[0].text == "OFFSET" && c14Digits(rest[1].text)
	}
	sym.Assert(ok, "PagingClauses output is not LIMIT n [OFFSET n]")
}

func c14Digits(s string) bool {
	if s == "" {
		return false
	}
	for i := 0; i < len(s); i++ {
		if s[i] < '0' || s[i] > '9' {
			return false
		}
	}
	return true
}
