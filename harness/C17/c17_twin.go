package scripting

//verif:dir internal/server/tables/scripting

import (
	"fmt"
	"bytes"
	"database/sql"
	"errors"
	"io"
	"net/http"
	"os"
	"path/filepath"
	"strings"

	"github.com/tucats/ego/internal/defs"
	"github.com/tucats/ego/internal/dsns"
	"github.com/tucats/ego/internal/router"
	sym "github.com/tucats/ego/internal/zzverif/sym"
	_ "modernc.org/sqlite"
)

// Native twin of VerifC17_allOrNothing for the fault the vector describes that
// can be provoked through the public request format: an error condition that
// parses but cannot be evaluated. The real handler runs against a real SQLite
// file; afterwards a second connection tries to write. If the request left its
// transaction open, the write lock is still held and the second writer is
// refused ("database is locked").

type c17DSN struct{ path string }

func (s *c17DSN) AuthDSN(session int, user, dsn string, action dsns.DSNAction) bool { return true }
func (s *c17DSN) ReadDSN(session int, user, name string, doNotLog bool) (defs.DSN, error) {
	if name != "d" {
		return defs.DSN{}, errors.New("no such dsn")
	}
	return defs.DSN{Name: "d", Provider: "sqlite3", Database: s.path}, nil
}
func (s *c17DSN) WriteDSN(session int, user string, d defs.DSN) error { return nil }
func (s *c17DSN) DeleteDSN(session int, user, name string) error      { return nil }
func (s *c17DSN) ListDSNS(session int, user string) (map[string]defs.DSN, error) {
	return nil, nil
}
func (s *c17DSN) GrantDSN(session int, user, name string, action dsns.DSNAction, grant bool) error {
	return nil
}
func (s *c17DSN) Permissions(session int, user, name string) (map[string]dsns.DSNAction, error) {
	return nil, nil
}
func (s *c17DSN) RevokeAllDSN(session int, name string) error { return nil }
func (s *c17DSN) Flush() error                                 { return nil }
func (s *c17DSN) Close() error                                 { return nil }

type c17Recorder struct {
	hdr    http.Header
	status int
	body   bytes.Buffer
}

func (w *c17Recorder) Header() http.Header         { return w.hdr }
func (w *c17Recorder) WriteHeader(s int)           { w.status = s }
func (w *c17Recorder) Write(b []byte) (int, error) { return w.body.Write(b) }

func c17Native() {
	// consume the vector in the same order as the symbolic harness
	nTasks := 1
	if sym.Thorough() {
		nTasks = 2
	}
	hasCond := false
	var opcodes []int
	for i := 0; i < nTasks; i++ {
		opcodes = append(opcodes, sym.Choice("opcode", 9))
		if sym.Bool("hasCondition") {
			hasCond = true
		}
	}
	unparsable, evalBad, condTrue := sym.Bool("conditionUnparsable"), sym.Bool("conditionFailsToEvaluate"), sym.Bool("conditionTrue")
	_ = condTrue
	// two classes have a native twin: (a) a condition that cannot be evaluated,
	// (b) fault-free requests made of insert / sql / shorthand-sql operations
	faultFree := !hasCond && !sym.Bool("openFails") && !sym.Bool("beginFails") && !sym.Bool("commitFails")
	for range opcodes {
		faultFree = faultFree && !sym.Bool("opFails")
	}
	for _, op := range opcodes {
		faultFree = faultFree && (op == 0 || op == 5 || op == 8)
	}
	classA := hasCond && evalBad && !unparsable
	sym.Assume(classA || faultFree)

	dir, err := os.MkdirTemp("", "c17-")
	if err != nil {
		panic(err)
	}
	defer os.RemoveAll(dir)
	path := filepath.Join(dir, "t.db")
	setup, err := sql.Open("sqlite", path)
	if err != nil {
		panic(err)
	}
	if _, err := setup.Exec(`CREATE TABLE t (a INTEGER)`); err != nil {
		panic(err)
	}
	setup.Close()

	saved := dsns.DSNService
	dsns.DSNService = &c17DSN{path: path}
	defer func() { dsns.DSNService = saved }()

	body := `[{"operation":"insert","table":"t","data":{"a":1},"errors":[{"condition":"EQ(no_such_symbol, 1)"}]}]`
	if !classA {
		var parts []string
		for i, op := range opcodes {
			switch op {
			case 0:
				parts = append(parts, fmt.Sprintf(`{"operation":"insert","table":"t","data":{"a":%d}}`, 10+i))
			case 5:
				parts = append(parts, fmt.Sprintf(`{"operation":"sql","sql":"INSERT INTO t (a) VALUES (%d)"}`, 10+i))
			default:
				parts = append(parts, fmt.Sprintf(`{"sql":"INSERT INTO t (a) VALUES (%d)"}`, 10+i))
			}
		}
		body = "[" + strings.Join(parts, ",") + "]"
	}
	r := &http.Request{Method: "POST", Header: http.Header{}, Body: io.NopCloser(strings.NewReader(body))}
	s := &router.Session{ID: 1, User: "admin", Admin: true, Authenticated: true, Language: "en", URLParts: map[string]any{"dsn": "d"}}
	w := &c17Recorder{hdr: http.Header{}}
	status := Handler(s, w, r)
	sym.Observe("status", status)

	probe, err := sql.Open("sqlite", path)
	if err != nil {
		panic(err)
	}
	defer probe.Close()
	probe.Exec("PRAGMA busy_timeout=0;")
	_, werr := probe.Exec(`INSERT INTO t (a) VALUES (2)`)
	held := werr != nil && strings.Contains(strings.ToLower(werr.Error()), "lock")
	sym.Assert(!held, "the request returned with its database transaction still open")
	if !classA && status == http.StatusOK {
		for i := range opcodes {
			var n int
			if err := probe.QueryRow(`SELECT count(*) FROM t WHERE a = ?`, 10+i).Scan(&n); err == nil {
				sym.Assert(n == 1, "success was reported although not every operation of the request was applied, once and in order")
			}
		}
	}
	if status >= 400 {
		var n int
		if err := probe.QueryRow(`SELECT count(*) FROM t WHERE a = 1`).Scan(&n); err == nil {
			sym.Assert(n == 0, "failure was reported although the transaction was committed")
		}
	}
}
