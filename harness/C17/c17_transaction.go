package scripting

//verif:dir internal/server/tables/scripting
//verif:dropgo github.com/tucats/ego/internal/caches.expire
//verif:stub (*encoding/json.Decoder).Decode = c17Decode
//verif:stub github.com/tucats/ego/internal/server/tables/scripting.hasPermission = c17HasPermission
//verif:stub github.com/tucats/ego/internal/server/tables/database.Open = c17Open
//verif:stub (*database/sql.DB).Begin = c17Begin
//verif:stub (*database/sql.DB).Close = c17CloseDB
//verif:stub (*database/sql.Tx).Commit = c17Commit
//verif:stub (*database/sql.Tx).Rollback = c17Rollback
//verif:stub github.com/tucats/ego/internal/server/tables/scripting.doInsert = c17DoInsert
//verif:stub github.com/tucats/ego/internal/server/tables/scripting.doUpdate = c17DoCount
//verif:stub github.com/tucats/ego/internal/server/tables/scripting.doDelete = c17DoCount
//verif:stub github.com/tucats/ego/internal/server/tables/scripting.doSelect = c17DoCount
//verif:stub github.com/tucats/ego/internal/server/tables/scripting.doRows = c17DoCount
//verif:stub github.com/tucats/ego/internal/server/tables/scripting.doSQL = c17DoSQL
//verif:stub github.com/tucats/ego/internal/server/tables/scripting.doDrop = c17DoInsert
//verif:stub github.com/tucats/ego/internal/server/tables/scripting.doSymbols = c17DoSymbols
//verif:stub github.com/tucats/ego/internal/server/tables/parsing.FormCondition = c17FormCondition
//verif:stub (*github.com/tucats/ego/internal/language/expressions.Expression).Eval = c17Eval
//verif:stub github.com/tucats/ego/internal/util.ErrorResponse = c17ErrorResponse
//verif:stub github.com/tucats/ego/internal/util.WriteJSON = c17WriteJSON
//verif:stub github.com/tucats/ego/internal/util.MakeServerInfo = c17ServerInfo
//verif:stub github.com/tucats/ego/internal/i18n.Text = c17Text
//verif:stub github.com/tucats/ego/internal/i18n.T = c17T
//verif:stub github.com/tucats/ego/internal/cli/settings.GetInt = c17GetInt
//verif:stub github.com/tucats/ego/internal/caches.Purge = c17Purge
//verif:bound a @transaction request of 1 (quick) / 2 (thorough) tasks, each with an arbitrary one of the eight opcodes (or the sql shorthand without an operation name) and 0 or 1 error condition; every operation has an arbitrary outcome (row count, status, error); condition parsing and evaluation each succeed, fail, or yield true/false arbitrarily; opening the database, BEGIN and COMMIT each succeed or fail arbitrarily
//verif:assume the per-operation functions (doInsert ... doSQL) and the database are replaced by arbitrary outcomes; COMMIT and ROLLBACK of the underlying engine are atomic, and a failed COMMIT leaves no transaction open
//verif:outside the SQL the operations generate (C14, C15); result-set payload contents

import (
	"database/sql"
	"encoding/json"
	"errors"
	"net/http"

	"github.com/tucats/ego/internal/defs"
	"github.com/tucats/ego/internal/dsns"
	"github.com/tucats/ego/internal/language/expressions"
	"github.com/tucats/ego/internal/language/symbols"
	"github.com/tucats/ego/internal/router"
	"github.com/tucats/ego/internal/server/tables/database"
	"github.com/tucats/ego/internal/util"
	sym "github.com/tucats/ego/internal/zzverif/sym"
)

const (
	c17None = iota
	c17Open_
	c17Committed
	c17RolledBack
	c17Aborted // COMMIT failed: the engine discards the transaction
)

var (
	c17Tasks     []defs.TXOperation
	c17TxState   int
	c17Closed    int
	c17Success   int // success payloads written
	c17Errors    int // error responses written
	c17CondBad   bool
	c17EvalBad   bool
	c17EvalTrue  bool
	c17Ran       []string // which operation function ran, in order
)

func c17Decode(dec *json.Decoder, v any) error {
	*(v.(*[]defs.TXOperation)) = c17Tasks
	return nil
}
func c17HasPermission(s *router.Session, p string) bool { return true }
func c17Open(s *router.Session, name string, action dsns.DSNAction) (*database.Database, error) {
	if sym.Bool("openFails") {
		return nil, errors.New("cannot open")
	}
	return &database.Database{Name: "d", Handle: new(sql.DB), Session: s, Provider: "sqlite3"}, nil
}
func c17Begin(db *sql.DB) (*sql.Tx, error) {
	if sym.Bool("beginFails") {
		return nil, errors.New("cannot begin")
	}
	c17TxState = c17Open_
	return new(sql.Tx), nil
}
func c17CloseDB(db *sql.DB) error { c17Closed++; return nil }
func c17Commit(tx *sql.Tx) error {
	if c17TxState != c17Open_ {
		return sql.ErrTxDone
	}
	if sym.Bool("commitFails") {
		c17TxState = c17Aborted
		return errors.New("commit failed")
	}
	c17TxState = c17Committed
	return nil
}
func c17Rollback(tx *sql.Tx) error {
	if c17TxState != c17Open_ {
		return sql.ErrTxDone
	}
	c17TxState = c17RolledBack
	return nil
}

func c17Outcome() (int, int, error) {
	count := int(sym.Uint8("count"))
	if sym.Bool("opFails") {
		return count, http.StatusBadRequest, errors.New("operation failed")
	}
	return count, http.StatusOK, nil
}
func c17DoCount(id int, user string, db *database.Database, task defs.TXOperation, n int, s *symbolTable) (int, int, error) {
	c17Ran = append(c17Ran, "table")
	return c17Outcome()
}
func c17DoInsert(id int, user string, db *database.Database, task defs.TXOperation, n int, s *symbolTable) (int, error) {
	c17Ran = append(c17Ran, "table")
	_, st, err := c17Outcome()
	return st, err
}
func c17DoSQL(id int, db *database.Database, task defs.TXOperation, n int, s *symbolTable) (int, int, bool, error) {
	c17Ran = append(c17Ran, "sql")
	c, st, err := c17Outcome()
	return c, st, sym.Bool("cacheFlush"), err
}
func c17DoSymbols(id int, task defs.TXOperation, n int, s *symbolTable) (int, error) {
	c17Ran = append(c17Ran, "symbols")
	_, st, err := c17Outcome()
	return st, err
}
func c17FormCondition(c string) (string, error) {
	if c17CondBad {
		return "", errors.New("bad condition")
	}
	return c, nil
}
func c17Eval(e *expressions.Expression, s *symbols.SymbolTable) (any, error) {
	if c17EvalBad {
		return nil, errors.New("cannot evaluate")
	}
	return c17EvalTrue, nil
}
func c17ErrorResponse(w http.ResponseWriter, id int, msg string, status int) int { c17Errors++; return status }
func c17WriteJSON(w http.ResponseWriter, info util.ResponseInfo, status int, body any) []byte {
	c17Success++
	return nil
}
func c17ServerInfo(id int) defs.ServerInfo                           { return defs.ServerInfo{} }
func c17Text(lang, key string, args ...map[string]any) string        { return key }
func c17T(key string, args ...map[string]any) string                 { return key }
func c17GetInt(key string) int                                       { return 0 }
func c17Purge(id int)                                                {}

type c17Writer struct{ hdr http.Header }

func (w *c17Writer) Header() http.Header         { return w.hdr }
func (w *c17Writer) WriteHeader(int)             {}
func (w *c17Writer) Write(b []byte) (int, error) { return len(b), nil }

func VerifC17_allOrNothing() {
	if !sym.Symbolic() {
		c17Native()
		return
	}
	n := 1
	if sym.Thorough() {
		n = 2
	}
	sym.Bound("tasks", n)
	// the ninth form is the documented shorthand: no operation name, just sql text
	ops := []string{insertOpcode, updateOpcode, deleteOpcode, selectOpcode, rowsOpcode, sqlOpcode, dropOpCode, symbolsOpcode, ""}
	c17Tasks = nil
	var want []string
	for i := 0; i < n; i++ {
		t := defs.TXOperation{Opcode: ops[sym.Choice("opcode", len(ops))], Table: "t"}
		switch t.Opcode {
		case sqlOpcode:
			t.SQL = "delete from t"
			want = append(want, "sql")
		case "":
			t.SQL, t.Table = "delete from t", ""
			want = append(want, "sql")
		case symbolsOpcode:
			want = append(want, "symbols")
		default:
			want = append(want, "table")
		}
		if sym.Bool("hasCondition") {
			t.Errors = []defs.TXError{{Condition: "_rows_ == 0"}}
		}
		c17Tasks = append(c17Tasks, t)
	}
	c17CondBad, c17EvalBad, c17EvalTrue = sym.Bool("conditionUnparsable"), sym.Bool("conditionFailsToEvaluate"), sym.Bool("conditionTrue")
	c17TxState, c17Closed, c17Success, c17Errors, c17Ran = c17None, 0, 0, 0, nil
	sym.Known("C17-bad-condition-leaves-transaction-open", c17EvalBad)
	s := &router.Session{ID: 1, User: "u", Language: "en", URLParts: map[string]any{"dsn": "d"}}
	status := Handler(s, &c17Writer{hdr: http.Header{}}, &http.Request{Header: http.Header{}})
	sym.Reach("returned")
	sym.Assert(c17Success+c17Errors == 1, "the request was answered with neither exactly one success payload nor exactly one error response")
	if c17Success == 1 {
		sym.Assert(c17TxState == c17Committed && status == http.StatusOK, "success was reported although the transaction was not committed")
		applied := len(c17Ran) == len(want)
		for i := 0; applied && i < len(want); i++ {
			applied = c17Ran[i] == want[i]
		}
		sym.Assert(applied, "success was reported although not every operation of the request was applied, once and in order")
	} else {
		sym.Assert(c17TxState != c17Committed, "failure was reported although the transaction was committed")
	}
	sym.Assert(c17TxState != c17Open_, "the request returned with its database transaction still open")
}
