package javascript

//verif:dir internal/util/javascript
//verif:bound stylesheet text: any bytes, len<=4 (quick) / <=6 (thorough); and over the 5-byte alphabet {" \\ space / *} that drives the string/comment state machine, len<=9 (quick) / <=11 (thorough)
//verif:outside stylesheets longer than the bound; backslash escapes outside string literals; unterminated comments/strings; at-rule preludes' whitespace; the CSS grammar above token level (values, at-rule semantics)
//verif:summarize github.com/tucats/ego/internal/util/javascript.cssIsWS
//verif:summarize github.com/tucats/ego/internal/util/javascript.cssIsDelim
//verif:summarize github.com/tucats/ego/internal/util/javascript.refIsWS
//verif:summarize github.com/tucats/ego/internal/util/javascript.refIsName
//verif:summarize github.com/tucats/ego/internal/util/javascript.c34StringAlphabet

import (
	sym "github.com/tucats/ego/internal/zzverif/sym"
)

// Reference CSS tokenizer (independent of the code under test).
//
// kinds: 's' string, 'w' name (maximal run of name characters: letters,
// digits, '_', '-', bytes >= 0x80), 'p' every other byte as
// a one-byte token ({ } ; , > : . # [ ] ( ) * + ~ / @ ...). This is coarser
// than the CSS Syntax tokenizer only in ways that cannot produce an alarm:
// the minifier only ever removes whitespace, comments and semicolons, and two
// adjacent tokens fuse into one exactly when both are names. Comments and
// whitespace produce no token but set the "gap" flags of the next token.
type refTok struct {
	kind    byte
	text    string
	wsGap   bool // whitespace between the previous token and this one
	anyGap  bool // whitespace or a comment between them
	depth0  bool // token is at brace depth 0
	atRule  bool // the statement this token belongs to starts with '@'
}

func refIsWS(b byte) bool { return b == ' ' || b == '\t' || b == '\n' || b == '\r' || b == '\f' }
func refIsName(b byte) bool {
	return b >= 'a' && b <= 'z' || b >= 'A' && b <= 'Z' || b >= '0' && b <= '9' || b == '_' || b == '-' || b >= 0x80
}

func refTokens(s []byte) []refTok {
	var out []refTok
	i, n := 0, len(s)
	ws, gap := false, false
	depth := 0
	at := false
	stmtStart := true
	for i < n {
		c := s[i]
		if c == '/' && i+1 < n && s[i+1] == '*' {
			i += 2
			for i+1 < n && !(s[i] == '*' && s[i+1] == '/') {
				i++
			}
			i += 2
			gap = true
			continue
		}
		if refIsWS(c) {
			i++
			ws, gap = true, true
			continue
		}
		t := refTok{wsGap: ws, anyGap: gap, depth0: depth == 0}
		switch {
		case c == '"' || c == '\'':
			j := i + 1
			for j < n && s[j] != c {
				if s[j] == '\\' && j+1 < n {
					j += 2
					continue
				}
				j++
			}
			if j < n {
				j++
			}
			t.kind, t.text = 's', string(s[i:j])
			i = j
		case refIsName(c):
			j := i
			for j < n && refIsName(s[j]) {
				j++
			}
			t.kind, t.text = 'w', string(s[i:j])
			i = j
		default:
			t.kind, t.text = 'p', string(s[i:i+1])
			i++
		}
		if stmtStart {
			at = t.kind == 'p' && t.text[0] == '@'
			stmtStart = false
		}
		t.atRule = at
		if t.kind == 'p' {
			switch t.text[0] {
			case '{':
				depth++
				stmtStart = true
			case '}':
				if depth > 0 {
					depth--
				}
				stmtStart = true
			case ';':
				stmtStart = true
			}
		}
		out = append(out, t)
		ws, gap = false, false
	}
	return out
}

// dropRedundantSemis removes every ';' whose next token is ';' or '}'.
func dropRedundantSemis(ts []refTok) []refTok {
	var out []refTok
	for i, t := range ts {
		if t.kind == 'p' && t.text == ";" && i+1 < len(ts) && ts[i+1].kind == 'p' && (ts[i+1].text == ";" || ts[i+1].text == "}") {
			continue
		}
		out = append(out, t)
	}
	return out
}

// unterminated reports a comment or string that runs to end of input; such
// input is not a stylesheet and is excluded from the claim.
func wellFormed(s []byte) bool {
	i, n := 0, len(s)
	for i < n {
		c := s[i]
		if c == '/' && i+1 < n && s[i+1] == '*' {
			i += 2
			for i+1 < n && !(s[i] == '*' && s[i+1] == '/') {
				i++
			}
			if i+1 >= n {
				return false
			}
			i += 2
			continue
		}
		if c == '"' || c == '\'' {
			j := i + 1
			for j < n && s[j] != c {
				if s[j] == '\\' {
					j++
				}
				j++
			}
			if j >= n {
				return false
			}
			i = j + 1
			continue
		}
		if c == '\\' {
			return false // escapes outside string literals are outside the claim
		}
		i++
	}
	return true
}

func VerifC34_tokensPreserved() {
	n := 4
	if sym.Thorough() {
		n = 6
	}
	sym.Bound("sourceBytes", n)
	src := sym.Bytes("css", n)
	sym.Assume(wellFormed(src))
	in := append([]byte(nil), src...)
	out := MinifyCSS(src)
	sym.Reach("minified")
	sym.Observe("out", string(out))
	a := dropRedundantSemis(refTokens(in))
	b := dropRedundantSemis(refTokens(out))
	sym.Known("C34-comment-between-words", commentJoinsWords(in))
	if len(a) != len(b) {
		sym.Fail("MinifyCSS changed the number of CSS tokens")
	}
	for i := range a {
		sym.Assert(a[i].kind == b[i].kind && a[i].text == b[i].text, "MinifyCSS changed a CSS token")
		// a descendant combinator before a pseudo-class (`a :hover`) must survive,
		// and must not be invented (`a:hover` must not become `a :hover`).
		if i > 0 && a[i].depth0 && !a[i].atRule && selectorStart(a[i]) && selectorEnd(a[i-1]) {
			sym.Assert(a[i].wsGap == b[i].wsGap, "MinifyCSS changed a descendant combinator (whitespace between compound selectors)")
		}
	}
}

// selectorEnd: the token can end a compound selector (a name, ')' , ']' or '*').
func selectorEnd(t refTok) bool {
	return t.kind == 'w' || t.text == ")" || t.text == "]" || t.text == "*"
}

// selectorStart: the token starts a compound selector without being a name
// (names fuse, which the token comparison already catches): . # [ : *
func selectorStart(t refTok) bool {
	return t.kind == 'p' && (t.text == "." || t.text == "#" || t.text == "[" || t.text == ":" || t.text == "*")
}

func c34StringAlphabet(c byte) bool {
	return c == '"' || c == '\\' || c == ' ' || c == '/' || c == '*'
}

// VerifC34_stringsAndEscapes: longer inputs over the bytes that drive the
// string/comment state machine (quote, backslash, blank, / and *).
func VerifC34_stringsAndEscapes() {
	n := 9
	if sym.Thorough() {
		n = 11
	}
	sym.Bound("sourceBytesSmallAlphabet", n)
	src := sym.Bytes("css", n)
	for i := range src {
		sym.Assume(c34StringAlphabet(src[i]))
	}
	sym.Assume(c34WellFormedStrings(src))
	in := append([]byte(nil), src...)
	out := MinifyCSS(src)
	sym.Reach("minified")
	a := dropRedundantSemis(refTokens(in))
	b := dropRedundantSemis(refTokens(out))
	if len(a) != len(b) {
		sym.Fail("MinifyCSS changed the number of CSS tokens")
	}
	for i := range a {
		sym.Assert(a[i].kind == b[i].kind && a[i].text == b[i].text, "MinifyCSS changed a CSS token")
	}
}

// c34WellFormedStrings: like wellFormed, but backslashes are allowed inside
// string literals (that is what this harness is about).
func c34WellFormedStrings(s []byte) bool { return wellFormed(s) }

// commentJoinsWords: two word characters separated only by a comment (no
// whitespace). Class of known finding C34-comment-between-words.
func commentJoinsWords(s []byte) bool {
	ts := refTokens(s)
	for i := 1; i < len(ts); i++ {
		if ts[i].anyGap && !ts[i].wsGap && ts[i].kind == 'w' && ts[i-1].kind == 'w' {
			return true
		}
	}
	return false
}
