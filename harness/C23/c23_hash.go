package authserver

//verif:dir internal/server/oauth/authserver

import (
	"crypto/sha256"
	"encoding/base64"
)

// c23Sum calls crypto/sha256.Sum256 (under the engine: the ideal-hash stub).
func c23Sum(b []byte) [32]byte { return sha256.Sum256(b) }
func c23B64(b []byte) string   { return base64.RawURLEncoding.EncodeToString(b) }
