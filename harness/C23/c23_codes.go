package authserver

//verif:dir internal/server/oauth/authserver
//verif:dropgo github.com/tucats/ego/internal/caches.expire
//verif:stub github.com/tucats/ego/internal/cli/settings.GetInt = c23GetInt
//verif:stub crypto/sha256.Sum256 = c23IdealHash
//verif:bound 2 (quick) / 3 (thorough) concurrent callers presenting the same authorization code (and, separately, the same refresh token); every interleaving at lock granularity (each sync.Mutex/RWMutex operation is a scheduling point); PKCE verifier and challenge: arbitrary strings of up to 3 bytes
//verif:assume data-race freedom between scheduling points (the engine does not model unsynchronised accesses); SHA-256 is modelled as an ideal hash: an injective, arbitrary-looking function of the verifier (for the PKCE harness only)
//verif:outside the HTTP token endpoint around consumeCode; cache expiry of codes (C28)

import (
	"sync"
	"sync/atomic"

	"github.com/tucats/ego/internal/caches"
	sym "github.com/tucats/ego/internal/zzverif/sym"
)

func c23GetInt(key string) int { return 0 }

// c23IdealHash: an injective stand-in for SHA-256 (the first bytes carry the
// input, so different verifiers never collide).
func c23IdealHash(b []byte) [32]byte {
	var h [32]byte
	h[0] = byte(len(b)) ^ 0x5a
	for i := 0; i < len(b) && i < 31; i++ {
		h[i+1] = b[i] ^ 0xa5
	}
	return h
}

func c23Race(n int, consume func() bool) int32 {
	var wins int32
	var wg sync.WaitGroup
	for i := 0; i < n; i++ {
		wg.Add(1)
		go func() {
			defer wg.Done()
			if consume() {
				atomic.AddInt32(&wins, 1)
			}
		}()
	}
	wg.Wait()
	return wins
}

func c23Callers() int {
	if sym.Thorough() {
		return 3
	}
	return 2
}

// VerifC23_codeSingleUse: however the callers interleave, at most one gets the code.
func VerifC23_codeSingleUse() {
	n := c23Callers()
	sym.Bound("concurrentCallers", n)
	rounds := 1
	if !sym.Symbolic() {
		rounds = 300000 // native: real goroutines, repeat until the race is hit
	}
	sym.Known("C23-code-find-then-delete-race", true)
	for r := 0; r < rounds; r++ {
		caches.PurgeLocal(caches.OAuthCodeCache)
		storeCode("code-1", PendingAuthorization{ClientID: "c", Username: "u"})
		wins := c23Race(n, func() bool {
			_, ok := consumeCode("code-1")
			return ok
		})
		sym.Reach("raced")
		if wins > 1 {
			sym.Assert(false, "one authorization code was redeemed by more than one concurrent token request")
			return
		}
	}
}

// VerifC23_refreshSingleUse: the same for refresh tokens.
func VerifC23_refreshSingleUse() {
	n := c23Callers()
	rounds := 1
	if !sym.Symbolic() {
		rounds = 300000
	}
	sym.Known("C23-refresh-find-then-delete-race", true)
	for r := 0; r < rounds; r++ {
		caches.PurgeLocal(caches.OAuthRefreshCache)
		caches.Add(caches.OAuthRefreshCache, "rt-1", RefreshTokenData{ClientID: "c", Username: "u"})
		wins := c23Race(n, func() bool {
			_, ok := consumeRefreshToken("rt-1")
			return ok
		})
		sym.Reach("raced")
		if wins > 1 {
			sym.Assert(false, "one refresh token was exchanged by more than one concurrent request")
			return
		}
	}
}

// VerifC23_pkce: with a stored challenge, only the matching verifier passes,
// whatever method the client named (or did not name) when it sent the challenge.
func VerifC23_pkce() {
	verifier := sym.String("verifier", 3)
	other := sym.String("other", 3)
	sym.Assume(other != verifier)
	method := []string{"S256", "", "plain", "s256"}[sym.Choice("method", 4)]
	p := PendingAuthorization{CodeChallenge: c23Challenge(verifier), CodeChallengeMethod: method}
	sym.Reach("pkce")
	if method == "S256" {
		sym.Assert(verifyPKCE(p, verifier) == nil, "the matching PKCE verifier was refused")
	}
	sym.Assert(verifyPKCE(p, other) != nil, "a non-matching PKCE verifier was accepted for a code that carries a challenge")
	if method != "S256" {
		// the stored challenge is an S256 digest: under any other (or no) method
		// the verifier cannot be shown to match it
		sym.Assert(verifyPKCE(p, verifier) != nil, "a code that carries a challenge was accepted under a method other than S256")
	}
}

// c23Challenge computes the S256 challenge the way a client does.
func c23Challenge(verifier string) string {
	h := c23Sum([]byte(verifier))
	return c23B64(h[:])
}
