package util

//verif:dir internal/util
//verif:stub crypto/aes.NewCipher = c27NewCipher
//verif:stub crypto/cipher.NewGCM = c27NewGCM
//verif:stub github.com/tucats/ego/internal/util.argon2idKey = c27Argon2Key
//verif:stub github.com/tucats/ego/internal/util.pbkdf2Key = c27PBKDF2Key
//verif:stub github.com/tucats/ego/internal/util.md5Key = c27MD5Key
//verif:stub io.ReadFull = c27ReadFull
//verif:bound plaintext <= 2 bytes, passphrases <= 2 bytes, candidate ciphertext: arbitrary bytes of every length 0..(4+16+12+2+16+2)
//verif:assume ideal cryptography: the AEAD opens exactly the (key, nonce, ciphertext||tag) triples it sealed; key derivation functions are injective and their outputs never collide across functions; salt, nonce and tag values are arbitrary
//verif:outside the cryptographic strength of AES-GCM, Argon2id, PBKDF2 and MD5 themselves; hex framing in tokens.Unwrap; settings encryption wrapper

import (
	"crypto/cipher"
	"errors"
	"io"

	sym "github.com/tucats/ego/internal/zzverif/sym"
)

// ---- ideal primitives (engine only)

type c27Block struct{ key []byte }

func (b *c27Block) BlockSize() int          { return 16 }
func (b *c27Block) Encrypt(dst, src []byte) { panic("c27: raw block use") }
func (b *c27Block) Decrypt(dst, src []byte) { panic("c27: raw block use") }

type c27Sealed struct {
	key, nonce, ct, tag []byte
}

var c27Records []c27Sealed

type c27AEAD struct{ key []byte }

func (a *c27AEAD) NonceSize() int { return 12 }
func (a *c27AEAD) Overhead() int  { return 16 }

// Seal: "ciphertext" is the plaintext itself (secrecy is not the property),
// followed by an arbitrary 16-byte tag remembered in the record.
func (a *c27AEAD) Seal(dst, nonce, plaintext, ad []byte) []byte {
	tag := []byte(sym.StringN("tag", 16))
	c27Records = append(c27Records, c27Sealed{key: a.key, nonce: append([]byte(nil), nonce...), ct: append([]byte(nil), plaintext...), tag: tag})
	out := append(dst, plaintext...)
	return append(out, tag...)
}

func c27Eq(a, b []byte) bool {
	if len(a) != len(b) {
		return false
	}
	for i := range a {
		if a[i] != b[i] {
			return false
		}
	}
	return true
}

var errC27Auth = errors.New("cipher: message authentication failed")

func (a *c27AEAD) Open(dst, nonce, ciphertext, ad []byte) ([]byte, error) {
	if len(ciphertext) < 16 {
		return nil, errC27Auth
	}
	ct, tag := ciphertext[:len(ciphertext)-16], ciphertext[len(ciphertext)-16:]
	for _, r := range c27Records {
		if c27Eq(r.key, a.key) && c27Eq(r.nonce, nonce) && c27Eq(r.ct, ct) && c27Eq(r.tag, tag) {
			return append(dst, ct...), nil
		}
	}
	return nil, errC27Auth
}

func c27NewCipher(key []byte) (cipher.Block, error) { return &c27Block{key: key}, nil }
func c27NewGCM(b cipher.Block) (cipher.AEAD, error) {
	return &c27AEAD{key: b.(*c27Block).key}, nil
}

// ideal KDFs: an injective encoding of (function, passphrase, salt)
func c27Argon2Key(pass string, salt []byte) []byte {
	return append(append([]byte{'A', byte(len(pass))}, pass...), salt...)
}
func c27PBKDF2Key(pass string, salt []byte) []byte {
	return append(append([]byte{'P', byte(len(pass))}, pass...), salt...)
}
func c27MD5Key(pass string) []byte { return append([]byte{'M', byte(len(pass))}, pass...) }

var c27RandSeq int

func c27ReadFull(r io.Reader, buf []byte) (int, error) {
	name := "salt"
	if len(buf) == 12 {
		name = "nonce"
	}
	copy(buf, sym.StringN(name, len(buf)))
	return len(buf), nil
}

// VerifC27_onlyTheRealCiphertextDecrypts
func VerifC27_onlyTheRealCiphertextDecrypts() {
	plain := sym.String("plain", 2)
	key := sym.String("key", 2)
	key2 := sym.String("key2", 2)
	var real []byte
	var model []byte
	if sym.Symbolic() {
		c27Records = nil
		var err error
		real, err = encrypt([]byte(plain), key)
		sym.Assert(err == nil, "encrypt failed")
		model = real
	} else {
		// native: the vector describes the ideal-model ciphertext; rebuild it to
		// learn where the candidate differs, and transplant that difference onto
		// a real ciphertext.
		salt, nonce, tag := sym.StringN("salt", 16), sym.StringN("nonce", 12), sym.StringN("tag", 16)
		model = append([]byte{0xFF, 0x45, 0x47, 0x33}, salt...)
		model = append(model, nonce...)
		model = append(model, plain...)
		model = append(model, tag...)
		var err error
		real, err = encrypt([]byte(plain), key)
		if err != nil {
			panic(err)
		}
	}
	sym.Reach("encrypted")

	// 1. round trip
	got, err := decrypt(real, key)
	sym.Assert(err == nil && string(got) == plain, "Decrypt(Encrypt(p,k),k) != p")

	// 2. anything else must be refused
	maxLen := len(model) + 2
	cand := sym.Bytes("cand", maxLen)
	candReal := cand
	if !sym.Symbolic() {
		candReal = make([]byte, len(cand))
		for i := range cand {
			if i < len(real) && i < len(model) {
				candReal[i] = real[i] ^ (cand[i] ^ model[i])
			} else {
				candReal[i] = cand[i]
			}
		}
	}
	same := c27Eq(cand, model) && key2 == key
	sym.Assume(!same)
	sym.Known("C27-short-input-decrypts-to-empty", c27Short(cand) && len(cand) > 0)
	sym.Known("C27-empty-input-decrypts-to-empty", len(cand) == 0)
	out, err := Decrypt(string(candReal), key2)
	sym.Reach("decrypted-candidate")
	sym.Assert(err != nil, "Decrypt returned text (no error) for something that is not the ciphertext under this key")
	_ = out
}

// c27Short: inputs too short to hold salt/nonce for their format.
func c27Short(c []byte) bool {
	if len(c) > 4 && c[0] == 0xFF && c[1] == 0x45 && c[2] == 0x47 && (c[3] == 0x33 || c[3] == 0x4F) {
		return len(c)-4 < 16+12
	}
	return len(c) < 12
}
