package settings

//verif:dir internal/cli/settings
//verif:stub crypto/aes.NewCipher = c27sNewCipher
//verif:stub crypto/cipher.NewGCM = c27sNewGCM
//verif:stub github.com/tucats/ego/internal/cli/settings.argon2idKey = c27sArgon2Key
//verif:stub github.com/tucats/ego/internal/cli/settings.obsoleteMD5HasherDoNotUse = c27sMD5
//verif:stub io.ReadFull = c27sReadFull
//verif:bound encrypted profile settings (settings.Encrypt/Decrypt, base64 text form): one genuine "v3:" ciphertext of a 2-byte plaintext with fixed salt/nonce/tag bytes; candidates: the ciphertext extended by up to 3 arbitrary characters, truncated at an arbitrary point, or with one character replaced by an arbitrary one at an arbitrary position; plus the right ciphertext with another key
//verif:assume ideal cryptography as in the util harness (AEAD opens exactly what it sealed; injective KDF)
//verif:assume inserting CR or LF into the base64 text is not an alteration (encoding/base64 ignores them by design)
//verif:outside the legacy and v2 formats beyond what these candidates reach; symbolic salts/nonces (the base64 text of a symbolic ciphertext is out of reach)

import (
	"crypto/cipher"
	"errors"
	"io"

	sym "github.com/tucats/ego/internal/zzverif/sym"
)

type c27sBlock struct{ key []byte }

func (b *c27sBlock) BlockSize() int          { return 16 }
func (b *c27sBlock) Encrypt(dst, src []byte) { panic("raw block use") }
func (b *c27sBlock) Decrypt(dst, src []byte) { panic("raw block use") }

type c27sSealed struct{ key, nonce, ct, tag []byte }

var c27sRecords []c27sSealed

type c27sAEAD struct{ key []byte }

func (a *c27sAEAD) NonceSize() int { return 12 }
func (a *c27sAEAD) Overhead() int  { return 16 }
func (a *c27sAEAD) Seal(dst, nonce, plaintext, ad []byte) []byte {
	tag := []byte("TAGTAGTAGTAGTAG!")
	c27sRecords = append(c27sRecords, c27sSealed{key: a.key, nonce: append([]byte(nil), nonce...), ct: append([]byte(nil), plaintext...), tag: tag})
	return append(append(dst, plaintext...), tag...)
}

func c27sEq(a, b []byte) bool {
	if len(a) != len(b) {
		return false
	}
	for i := range a {
		if a[i] != b[i] {
			return false
		}
	}
	return true
}

var errC27sAuth = errors.New("cipher: message authentication failed")

func (a *c27sAEAD) Open(dst, nonce, ciphertext, ad []byte) ([]byte, error) {
	if len(ciphertext) < 16 {
		return nil, errC27sAuth
	}
	ct, tag := ciphertext[:len(ciphertext)-16], ciphertext[len(ciphertext)-16:]
	for _, r := range c27sRecords {
		if c27sEq(r.key, a.key) && c27sEq(r.nonce, nonce) && c27sEq(r.ct, ct) && c27sEq(r.tag, tag) {
			return append(dst, ct...), nil
		}
	}
	return nil, errC27sAuth
}

func c27sNewCipher(key []byte) (cipher.Block, error) { return &c27sBlock{key: key}, nil }
func c27sNewGCM(b cipher.Block) (cipher.AEAD, error) {
	return &c27sAEAD{key: b.(*c27sBlock).key}, nil
}
func c27sArgon2Key(pass string, salt []byte) []byte {
	return append(append([]byte{'A', byte(len(pass))}, pass...), salt...)
}
func c27sMD5(key string) string { return "M" + key }
func c27sReadFull(r io.Reader, buf []byte) (int, error) {
	for i := range buf {
		buf[i] = byte(0x41 + i)
	}
	return len(buf), nil
}

// VerifC27_settingsCiphertextVariants
func VerifC27_settingsCiphertextVariants() {
	const plain, key = "hi", "k1"
	var real string
	var err error
	if sym.Symbolic() {
		c27sRecords = nil
	}
	real, err = Encrypt(plain, key)
	sym.Assert(err == nil, "Encrypt failed")
	got, err := Decrypt(real, key)
	sym.Assert(err == nil && got == plain, "Decrypt(Encrypt(p,k),k) != p")
	sym.Reach("encrypted")

	var cand string
	switch sym.Choice("variant", 4) {
	case 0: // extended
		ext := sym.String("extension", 3)
		sym.Assume(len(ext) > 0)
		for i := 0; i < len(ext); i++ {
			// encoding/base64 ignores CR and LF by design: not an alteration it can see
			sym.Assume(ext[i] != '\r' && ext[i] != '\n')
		}
		cand = real + ext
	case 1: // truncated
		n := sym.Choice("keep", len(real))
		cand = real[:n]
	case 2: // one character replaced
		i := sym.Choice("position", len(real))
		c := sym.Byte("replacement")
		sym.Assume(c != real[i] && c != '\r' && c != '\n')
		b := []byte(real)
		b[i] = c
		cand = string(b)
	default: // the right ciphertext, another key
		out, err := Decrypt(real, "k2")
		sym.Assert(err != nil, "Decrypt accepted the ciphertext under a different key")
		_ = out
		return
	}
	sym.Known("C27-settings-empty-input-decrypts-to-empty", len(cand) == 0)
	out, err := Decrypt(cand, key)
	sym.Reach("decrypted-candidate")
	sym.Assert(err != nil, "settings.Decrypt returned text (no error) for an altered, truncated or extended ciphertext")
	_ = out
}
