package bytecode

//verif:dir internal/language/bytecode
//verif:include C01/c01_helpers.go
//verif:bound x++ / x += k / x = x + k on a variable of every integer type (full-width value), k the constant 1 or an arbitrary int constant; each type-checking mode; executed as the two instruction sequences the compiler and the optimizer produce for it
//verif:outside -- and -= (Sub has no fused form), non-integer variables, qualified lvalues (a[i]++, s.f++)

import (
	"github.com/tucats/ego/internal/language/data"
	"github.com/tucats/ego/internal/language/symbols"
	sym "github.com/tucats/ego/internal/zzverif/sym"
)

func c03SymCtx(mode int, name string, v any) *Context {
	st := symbols.NewSymbolTable("verif")
	st.SetAlways(name, v)
	c := c01Context(mode)
	c.symbols = st
	c.bc = &ByteCode{name: "verif"}
	return c
}

// c03RunLoadAddStore: Load x; Push k; Add; Store x  (what `x++`, `x += k` and `x = x + k` compile to)
func c03RunLoadAddStore(c *Context, k any) error {
	if err := loadByteCode(c, "x"); err != nil {
		return err
	}
	if err := pushByteCode(c, k); err != nil {
		return err
	}
	if err := addByteCode(c, nil); err != nil {
		return err
	}
	return storeByteCode(c, "x")
}

// VerifC03_incrementFormsAgree: the fused Increment instruction (what the
// optimizer turns the sequence into) and the plain sequence leave the same
// value and type in x, or both fail.
func VerifC03_incrementFormsAgree() {
	t := sym.Choice("type", c01IntTypes)
	mode := sym.Choice("mode", 3)
	x := c01Int("x", t)
	var k any = data.Constant(1)
	if sym.Bool("arbitraryIncrement") {
		k = data.Constant(sym.Int("k"))
	}
	sym.Known("C03-increment-int8-unsupported", t == 0)
	sym.Known("C03-increment-strict-rejects-constant", mode == 0 && t != 4)
	c1 := c03SymCtx(mode, "x", x)
	err1 := c03RunLoadAddStore(c1, k)
	c2 := c03SymCtx(mode, "x", x)
	err2 := incrementByteCode(c2, []any{"x", k})
	sym.Reach("executed")
	sym.Assert((err1 == nil) == (err2 == nil), "x++ succeeds in one of its two instruction forms and fails in the other")
	if err1 == nil && err2 == nil {
		v1, _ := c1.get("x")
		v2, _ := c2.get("x")
		sym.Assert(v1 == v2, "x++ leaves a different value or type in its two instruction forms")
		// and it is Go's x + T(k)
		kv := k.(data.Immutable).Value
		if t != 8 && t != 9 {
			want, _ := c01Go("+", x, c03ConvAll(kv, t))
			sym.Assert(v1 == want, "x += k is not x + T(k) in x's type")
		}
	}
}

func c03ConvAll(v any, k int) any {
	x := int64(v.(int))
	switch k {
	case 0:
		return int8(x)
	case 1:
		return int16(x)
	case 2:
		return int32(x)
	case 3:
		return x
	case 4:
		return int(x)
	case 5:
		return uint8(x)
	case 6:
		return uint16(x)
	case 7:
		return uint32(x)
	case 8:
		return uint64(x)
	default:
		return uint(x)
	}
}
