package bytecode

//verif:dir internal/language/bytecode
//verif:include C01/c01_helpers.go
//verif:bound one arithmetic instruction (+ - *) on operands of two different integer types chosen from int8 int16 int32 int64 int uint8 uint16 uint32, with full-width arbitrary values; either one operand is a constant (data.Immutable, an untyped constant is an int) or neither; each type-checking mode
//verif:assume float64(x) round trips used by CoerceLossless are modelled as exact rationals: valid here because every target type is at most 32 bits wide or has the constant's own width
//verif:outside uint64/uint operands and floating point (their coercions compare float64 values, outside the encoder); division, modulo and comparisons between different types; the assignment, argument and return boundaries; whole programs

import (
	"github.com/tucats/ego/internal/language/data"
	sym "github.com/tucats/ego/internal/zzverif/sym"
)

const c03Types = 8 // indices into c01Int: int8 int16 int32 int64 int uint8 uint16 uint32

var c03Ops = []struct {
	name string
	fn   func(*Context, any) error
}{{"+", addByteCode}, {"-", subtractByteCode}, {"*", multiplyByteCode}}

// c03ToInt64 / c03From: Go conversions between the integer types.
func c03ToInt64(v any) int64 {
	switch x := v.(type) {
	case int8:
		return int64(x)
	case int16:
		return int64(x)
	case int32:
		return int64(x)
	case int64:
		return x
	case int:
		return int64(x)
	case uint8:
		return int64(x)
	case uint16:
		return int64(x)
	case uint32:
		return int64(x)
	}
	panic("c03ToInt64")
}

// c03Conv converts v to integer type k the way a Go conversion does (wrapping).
func c03Conv(v any, k int) any {
	x := c03ToInt64(v)
	switch k {
	case 0:
		return int8(x)
	case 1:
		return int16(x)
	case 2:
		return int32(x)
	case 3:
		return x
	case 4:
		return int(x)
	case 5:
		return uint8(x)
	case 6:
		return uint16(x)
	default:
		return uint32(x)
	}
}

// c03Contains: every value of type j is a value of type k.
func c03Contains(k, j int) bool {
	bits := []int{8, 16, 32, 64, 64, 8, 16, 32}
	signed := []bool{true, true, true, true, true, false, false, false}
	if signed[k] == signed[j] {
		return bits[k] >= bits[j]
	}
	if signed[k] && !signed[j] {
		return bits[k] > bits[j]
	}
	return false
}

// VerifC03_constantAdaptsToTypedOperand: constant (int) op typed non-constant.
func VerifC03_constantAdaptsToTypedOperand() {
	k := sym.Choice("type", c03Types)
	sym.Assume(k != 4) // the constant itself is an int: same type is C01's case
	op := c03Ops[sym.Choice("op", len(c03Ops))]
	mode := sym.Choice("mode", 3)
	constFirst := sym.Bool("constFirst")
	v := c01Int("v", k)
	cst := sym.Int("constant")
	adapted := c03Conv(cst, k)
	lossless := c03ToInt64(adapted) == int64(cst)
	var want any
	if constFirst {
		want, _ = c01Go(op.name, adapted, v)
	} else {
		want, _ = c01Go(op.name, v, adapted)
	}
	c := c01Context(mode)
	if constFirst {
		_ = c.push(data.Constant(cst))
		_ = c.push(v)
	} else {
		_ = c.push(v)
		_ = c.push(data.Constant(cst))
	}
	err := op.fn(c, nil)
	sym.Reach("executed")
	if mode == 0 && !lossless { // strict
		sym.Assert(err != nil, "strict mode accepted a constant that does not fit the other operand's type")
		return
	}
	sym.Assert(err == nil, "a constant operand was rejected although it adapts to the other operand's type")
	if err != nil {
		return
	}
	got, perr := c.Pop()
	sym.Assert(perr == nil && got == want, "constant op typed value: result is not the typed operand's type with Go's value")
}

// VerifC03_mixedTypedOperands: two non-constants of different integer types.
func VerifC03_mixedTypedOperands() {
	k := sym.Choice("type1", c03Types)
	j := sym.Choice("type2", c03Types)
	sym.Assume(k != j)
	op := c03Ops[sym.Choice("op", len(c03Ops))]
	mode := sym.Choice("mode", 3)
	a, b := c01Int("a", k), c01Int("b", j)
	c := c01Context(mode)
	_ = c.push(a)
	_ = c.push(b)
	err := op.fn(c, nil)
	sym.Reach("executed")
	if mode == 0 {
		sym.Assert(err != nil, "strict mode accepted two non-constant operands of different types")
		return
	}
	sym.Assert(err == nil, "dynamic/relaxed mode rejected two integer operands of different types")
	if err != nil {
		return
	}
	got, perr := c.Pop()
	sym.Assert(perr == nil, "no result")
	// where one type contains the other, the result is the containing type with Go's value
	wide := -1
	if c03Contains(k, j) && !c03Contains(j, k) {
		wide = k
	} else if c03Contains(j, k) && !c03Contains(k, j) {
		wide = j
	}
	if wide >= 0 {
		want, _ := c01Go(op.name, c03Conv(a, wide), c03Conv(b, wide))
		sym.Assert(got == want, "mixed-type operation: result is not the wider operand type with Go's value")
	} else {
		// neither contains the other (e.g. int8 with uint8): the reference is not
		// specific; accept either operand type with Go's value at that type
		w1, _ := c01Go(op.name, c03Conv(a, k), c03Conv(b, k))
		w2, _ := c01Go(op.name, c03Conv(a, j), c03Conv(b, j))
		sym.Assert(got == w1 || got == w2 || data.KindOf(got) != data.KindOf(a), "mixed-type operation: result is neither operand type's Go value")
	}
}
