package util

//verif:dir internal/util
//verif:stub os.Lstat = c26Lstat
//verif:stub path/filepath.EvalSymlinks = c26EvalSymlinks
//verif:bound program-supplied path: arbitrary bytes over {/ . a b}, len<=6 (quick) / <=7 (thorough); sandbox root /a (so that absolute spellings inside the root are within the alphabet); a symbolic link /a/b whose target is one of 9 (inside, outside, a sibling whose name extends the root's, relative, dangling); model file system with directories / /a /a/a /b /b/a and one symbolic link /a/b whose target is chosen among {absent, /a/a, /b, .., ../b, a}
//verif:assume path/filepath Clean/Join/Rel/Dir run from source; symbolic-link resolution follows the model's resolver (component-wise, absolute and relative targets)
//verif:outside that every runtime file function routes its path through SandboxJoin (a call-site census); races between the check and the later use of the path; deeper link chains

import (
	"errors"
	"os"
	"path/filepath"
	"strings"

	sym "github.com/tucats/ego/internal/zzverif/sym"
)

const c26Root = "/a"

var (
	c26Dirs  = map[string]bool{"/": true, "/a": true, "/a/a": true, "/b": true, "/b/a": true, "/aa": true, "/aa/a": true} // /aa: a sibling whose name extends the root's
	c26Link  string // target of the symbolic link /a/b ("" = /a/b does not exist)
	errC26NE = errors.New("no such file or directory")
)

// c26Resolve is the model's realpath for an existing path.
func c26Resolve(p string, depth int) (string, error) {
	if depth > 4 {
		return "", errors.New("too many links")
	}
	p = filepath.Clean(p)
	if !strings.HasPrefix(p, "/") {
		return "", errC26NE
	}
	res := "/"
	if p == "/" {
		return res, nil
	}
	for _, comp := range strings.Split(p[1:], "/") {
		next := filepath.Join(res, comp)
		if next == "/a/b" && c26Link != "" {
			t := c26Link
			if !strings.HasPrefix(t, "/") {
				t = filepath.Join(res, t)
			}
			r, err := c26Resolve(t, depth+1)
			if err != nil {
				return "", err
			}
			res = r
			continue
		}
		if !c26Dirs[next] {
			return "", errC26NE
		}
		res = next
	}
	return res, nil
}

func c26Exists(p string) bool {
	p = filepath.Clean(p)
	if p == "/a/b" {
		return c26Link != ""
	}
	if strings.HasPrefix(p, "/a/b/") {
		_, err := c26Resolve(p, 0)
		return err == nil
	}
	return c26Dirs[p]
}

func c26Lstat(name string) (os.FileInfo, error) {
	if c26Exists(name) {
		return nil, nil
	}
	return nil, errC26NE
}

func c26EvalSymlinks(p string) (string, error) { return c26Resolve(p, 0) }

// c26Real: where a (possibly not yet existing) path really lives: the resolved
// longest existing ancestor plus the remaining components.
func c26Real(p string) string {
	p = filepath.Clean(p)
	existing := p
	for !c26Exists(existing) {
		parent := filepath.Dir(existing)
		if parent == existing {
			return p
		}
		existing = parent
	}
	r, err := c26Resolve(existing, 0)
	if err != nil {
		// a dangling link: the operating system creates the file where the
		// link points (its directory part resolved), not where the link is
		if existing == "/a/b" && c26Link != "" {
			t := c26Link
			if !strings.HasPrefix(t, "/") {
				t = filepath.Join("/a", t)
			}
			r = filepath.Clean(t)
		} else {
			return p
		}
	}
	if rel, err := filepath.Rel(existing, p); err == nil && rel != "." {
		return filepath.Join(r, rel)
	}
	return r
}

func VerifC26_pathsStayInsideTheSandbox() {
	n := 6
	if sym.Thorough() {
		n = 7
	}
	sym.Bound("pathBytes", n)
	if !sym.Symbolic() {
		c26Native(n)
		return
	}
	c26Link = []string{"", "/a/a", "/b", "..", "../b", "a", "/aa", "../aa", "/c", "../c"}[sym.Choice("link", 10)]
	p := sym.String("path", n)
	for i := 0; i < len(p); i++ {
		sym.Assume(p[i] == '/' || p[i] == '.' || p[i] == 'a' || p[i] == 'b')
	}
	out := SandboxJoin(c26Root, p)
	sym.Reach("joined")
	sym.Observe("out", out)
	real := c26Real(out)
	sym.Assert(real == c26Root || strings.HasPrefix(real, c26Root+"/"), "SandboxJoin returned a path that resolves outside the sandbox root")
}

// c26Native replays against a real directory tree with a real symbolic link.
func c26Native(n int) {
	link := []string{"", "/a/a", "/b", "..", "../b", "a", "/aa", "../aa", "/c", "../c"}[sym.Choice("link", 10)]
	p := sym.String("path", n)
	base, err := os.MkdirTemp("", "c26-")
	if err != nil {
		panic(err)
	}
	defer os.RemoveAll(base)
	base, _ = filepath.EvalSymlinks(base)
	root := filepath.Join(base, "a")
	os.MkdirAll(filepath.Join(root, "a"), 0o755)
	os.MkdirAll(filepath.Join(base, "b", "a"), 0o755)
	os.MkdirAll(filepath.Join(base, "aa", "a"), 0o755)
	if link != "" {
		t := link
		if strings.HasPrefix(t, "/") {
			t = filepath.Join(base, t)
		}
		os.Symlink(t, filepath.Join(root, "b"))
	}
	if strings.HasPrefix(p, "/") {
		p = base + p // an absolute path of the model lives under the temporary base directory
	}
	out := SandboxJoin(root, p)
	sym.Observe("out", strings.ReplaceAll(out, base, "")) // the base may occur twice: an absolute path outside the root is re-rooted
	// resolve the longest existing ancestor for real
	existing := out
	for {
		if _, err := os.Lstat(existing); err == nil {
			break
		}
		parent := filepath.Dir(existing)
		if parent == existing {
			break
		}
		existing = parent
	}
	real, err := filepath.EvalSymlinks(existing)
	if err != nil {
		real = existing
		// a dangling link: a file created through it appears at its target
		if t, lerr := os.Readlink(existing); lerr == nil {
			if !strings.HasPrefix(t, "/") {
				t = filepath.Join(filepath.Dir(existing), t)
			}
			real = filepath.Clean(t)
		}
	}
	sym.Assert(real == root || strings.HasPrefix(real, root+"/"), "SandboxJoin returned a path that resolves outside the sandbox root")
}
