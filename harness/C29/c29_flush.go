package cluster

//verif:dir internal/server/cluster
//verif:dropgo github.com/tucats/ego/internal/caches.expire
//verif:stub github.com/tucats/ego/internal/server/cluster.ListActiveMembers = c29ListActive
//verif:stub github.com/tucats/ego/internal/server/cluster.SendCacheFlush = c29Send
//verif:stub github.com/tucats/ego/internal/server/cluster.ValidateClusterToken = c29ValidToken
//verif:stub github.com/tucats/ego/internal/server/cluster.writeFlushResponse = c29Response
//verif:stub (*encoding/json.Decoder).Decode = c29Decode
//verif:stub github.com/tucats/ego/internal/util.ErrorResponse = c29ErrorResponse
//verif:stub github.com/tucats/ego/internal/i18n.Text = c29Text
//verif:stub github.com/tucats/ego/internal/cli/settings.GetInt = c29GetInt
//verif:bound origin step: an arbitrary list of 0..4 active peers, each send succeeding or failing arbitrarily; receive step: an arbitrary flush request (cache id one of six cache classes (including the three OAuth ones), arbitrary hop count, arbitrary sender), valid or invalid cluster token, decodable or not
//verif:assume the two per-node step lemmas compose: a purge at one node sends exactly one flush per active peer (origin step) and a node that receives a flush never sends one (receive step), so the total number of messages per purge is the number of peers, whatever the cluster size
//verif:note the origin step has a native twin (real SQLite membership table, real HTTP peers) used for replay
//verif:outside delay and loss of the real HTTP messages; the membership table in SQL; the JSON wire format

import (
	"database/sql"
	"encoding/json"
	"errors"
	"net/http"

	"github.com/tucats/ego/internal/caches"
	"github.com/tucats/ego/internal/defs"
	"github.com/tucats/ego/internal/router"
	sym "github.com/tucats/ego/internal/zzverif/sym"
)

var (
	c29Peers     []defs.ClusterMember
	c29ListFails bool
	c29Sent      []string
	c29SentHops  []int
	c29Token     bool
	c29Req       defs.ClusterFlushRequest
	c29DecodeErr bool
	c29Responded int
)

func c29ListActive(db *sql.DB, name string) ([]defs.ClusterMember, error) {
	if c29ListFails {
		return nil, errors.New("membership query failed")
	}
	return c29Peers, nil
}
func c29Send(peer defs.ClusterMember, cacheID int, hops int) error {
	c29Sent = append(c29Sent, peer.NodeID)
	c29SentHops = append(c29SentHops, hops)
	if sym.Bool("sendFails") {
		return errors.New("peer unreachable")
	}
	return nil
}
func c29ValidToken(r *http.Request) bool { return c29Token }
func c29Response(session *router.Session, w http.ResponseWriter, cacheID int) int {
	c29Responded++
	return http.StatusOK
}
func c29Decode(dec *json.Decoder, v any) error {
	if c29DecodeErr {
		return errors.New("bad json")
	}
	*(v.(*defs.ClusterFlushRequest)) = c29Req
	return nil
}
func c29ErrorResponse(w http.ResponseWriter, id int, msg string, status int) int { return status }
func c29Text(lang, key string, args ...map[string]any) string                  { return key }
func c29GetInt(key string) int                                                 { return 0 }

type c29Writer struct{ hdr http.Header }

func (w *c29Writer) Header() http.Header         { return w.hdr }
func (w *c29Writer) WriteHeader(int)             {}
func (w *c29Writer) Write(b []byte) (int, error) { return len(b), nil }

// VerifC29_originSendsOncePerPeer
func VerifC29_originSendsOncePerPeer() {
	if !sym.Symbolic() {
		c29NativeOrigin() // c29_twin.go: real membership table, real HTTP peers
		return
	}
	ClusterName, systemDB = "c", new(sql.DB)
	n := sym.Choice("peers", 5)
	c29Peers = nil
	for i := 0; i < n; i++ {
		c29Peers = append(c29Peers, defs.ClusterMember{NodeID: []string{"n1", "n2", "n3", "n4"}[i], Host: "h", Port: 1, Scheme: "https"})
	}
	c29ListFails = sym.Bool("listFails")
	c29Sent, c29SentHops = nil, nil
	BroadcastCacheFlush(caches.UserCache)
	sym.Reach("broadcast")
	if c29ListFails {
		sym.Assert(len(c29Sent) == 0, "flushes were sent although the peer list could not be read")
		return
	}
	sym.Assert(len(c29Sent) == n, "the number of flush messages is not the number of active peers")
	for i := range c29Sent {
		sym.Assert(i < n && c29Sent[i] == c29Peers[i].NodeID, "a peer was skipped or flushed twice")
		sym.Assert(c29SentHops[i] <= maxFlushHops, "an origin flush already exceeds the hop limit and would be ignored by its receiver")
	}
}

// VerifC29_receiverPurgesAndNeverRebroadcasts
func VerifC29_receiverPurgesAndNeverRebroadcasts() {
	if !sym.Symbolic() {
		c29NativeReceiver() // c29_twin.go: a real request with the real cluster token and JSON body
		return
	}
	ClusterName, systemDB = "c", new(sql.DB)
	c29Peers = []defs.ClusterMember{{NodeID: "n1"}, {NodeID: "n2"}}
	ids := []int{caches.UserCache, caches.TokenCache, caches.DSNCache, caches.OAuthCodeCache, caches.OAuthRefreshCache, caches.OAuthJWTCache}
	id := ids[sym.Choice("cache", len(ids))]
	for _, c := range ids {
		caches.PurgeLocal(c)
		caches.Add(c, "k", "v")
	}
	purged := 0
	caches.OnPurge = func(int) { purged++ }
	defer func() { caches.OnPurge = nil }()
	c29Token, c29DecodeErr = sym.Bool("tokenValid"), sym.Bool("decodeFails")
	c29Req = defs.ClusterFlushRequest{CacheID: id, SenderID: "n9", Hops: int(sym.Int8("hops"))}
	c29Sent, c29Responded = nil, 0
	st := FlushCacheHandler(&router.Session{ID: 1, Language: "en"}, &c29Writer{hdr: http.Header{}}, &http.Request{Header: http.Header{}})
	sym.Reach("handled")
	sym.Observe("statusClass", st/100)
	sym.Observe("cacheKept", caches.Size(id))
	sym.Assert(len(c29Sent) == 0, "a node re-broadcast a flush it received")
	sym.Assert(purged == 0, "a received flush fired the purge notification (which broadcasts)")
	if c29Token && !c29DecodeErr {
		sym.Assert(st == http.StatusOK, "a valid flush request was not answered with success")
		if c29Req.Hops <= maxFlushHops {
			sym.Assert(caches.Size(id) == 0, "a valid flush request did not discard the named cache")
		}
		for _, c := range ids {
			if c != id {
				sym.Assert(caches.Size(c) == 1, "a flush request discarded another cache")
			}
		}
	} else {
		for _, c := range ids {
			sym.Assert(caches.Size(c) == 1, "an unauthenticated or undecodable flush request discarded a cache")
		}
	}
}
