package cluster

//verif:dir internal/server/cluster

// Native twin of VerifC29_originSendsOncePerPeer: a real SQLite membership
// table, real HTTP peers (httptest servers; a peer whose send "fails" answers
// 500), the real ListActiveMembers and SendCacheFlush.

import (
	"database/sql"
	"fmt"
	"net/http"
	"net/http/httptest"
	"net/url"
	"os"
	"path/filepath"
	"strconv"
	"sync"

	"github.com/tucats/ego/internal/caches"
	"github.com/tucats/ego/internal/defs"
	sym "github.com/tucats/ego/internal/zzverif/sym"
	_ "modernc.org/sqlite"
)

func c29NativeOrigin() {
	n := sym.Choice("peers", 5)
	listFails := sym.Bool("listFails")
	fails := make([]bool, n)
	for i := range fails {
		fails[i] = sym.Bool("sendFails")
	}
	dir, err := os.MkdirTemp("", "c29-")
	if err != nil {
		panic(err)
	}
	defer os.RemoveAll(dir)
	db, err := sql.Open("sqlite", filepath.Join(dir, "system.db"))
	if err != nil {
		panic(err)
	}
	defer db.Close()
	if err := createClusterTable(db); err != nil {
		panic(err)
	}
	savedName, savedDB, savedID := ClusterName, systemDB, NodeID
	ClusterName, systemDB, NodeID = "c", db, "self"
	defer func() { ClusterName, systemDB, NodeID = savedName, savedDB, savedID }()

	var mu sync.Mutex
	got := make([]int, n)
	hops := make([]int, 0, n)
	_ = hops
	if err := upsertMember(db, defs.ClusterMember{Name: "c", NodeID: "self", Host: "127.0.0.1", Port: 1, Scheme: "http", JoinedAt: "2026-01-01T00:00:00Z", LastSeen: "2026-01-01T00:00:00Z", State: ActiveState}); err != nil {
		panic(err)
	}
	for i := 0; i < n; i++ {
		i := i
		srv := httptest.NewServer(http.HandlerFunc(func(w http.ResponseWriter, r *http.Request) {
			mu.Lock()
			got[i]++
			mu.Unlock()
			if fails[i] {
				w.WriteHeader(http.StatusInternalServerError)
				return
			}
			w.WriteHeader(http.StatusOK)
		}))
		defer srv.Close()
		u, _ := url.Parse(srv.URL)
		port, _ := strconv.Atoi(u.Port())
		stamp := fmt.Sprintf("2026-01-01T00:00:%02dZ", i+1)
		m := defs.ClusterMember{Name: "c", NodeID: fmt.Sprintf("n%d", i+1), Host: u.Hostname(), Port: port, Scheme: "http", JoinedAt: stamp, LastSeen: stamp, State: ActiveState}
		if err := upsertMember(db, m); err != nil {
			panic(err)
		}
	}
	if listFails {
		db.Close() // the membership query now fails
	}
	BroadcastCacheFlush(caches.UserCache)
	total := 0
	for _, g := range got {
		total += g
	}
	if listFails {
		sym.Assert(total == 0, "flushes were sent although the peer list could not be read")
		return
	}
	sym.Assert(total == n, "the number of flush messages is not the number of active peers")
	for _, g := range got {
		sym.Assert(g == 1, "a peer was skipped or flushed twice")
	}
}
