package cluster

//verif:dir internal/server/cluster

// Native twin of VerifC29_originSendsOncePerPeer: a real SQLite membership
// table, real HTTP peers (httptest servers; a peer whose send "fails" answers
// 500), the real ListActiveMembers and SendCacheFlush.

import (
	"database/sql"
	"fmt"
	"net/http"
	"net/http/httptest"
	"net/url"
	"os"
	"path/filepath"
	"strconv"
	"strings"
	"sync"

	"github.com/tucats/ego/internal/caches"
	"github.com/tucats/ego/internal/defs"
	"github.com/tucats/ego/internal/router"
	sym "github.com/tucats/ego/internal/zzverif/sym"
	_ "modernc.org/sqlite"
)

func c29NativeOrigin() {
	n := sym.Choice("peers", 5)
	listFails := sym.Bool("listFails")
	fails := make([]bool, n)
	for i := range fails {
		fails[i] = sym.Bool("sendFails")
	}
	dir, err := os.MkdirTemp("", "c29-")
	if err != nil {
		panic(err)
	}
	defer os.RemoveAll(dir)
	db, err := sql.Open("sqlite", filepath.Join(dir, "system.db"))
	if err != nil {
		panic(err)
	}
	defer db.Close()
	if err := createClusterTable(db); err != nil {
		panic(err)
	}
	savedName, savedDB, savedID := ClusterName, systemDB, NodeID
	ClusterName, systemDB, NodeID = "c", db, "self"
	defer func() { ClusterName, systemDB, NodeID = savedName, savedDB, savedID }()

	var mu sync.Mutex
	got := make([]int, n)
	hops := make([]int, 0, n)
	_ = hops
	if err := upsertMember(db, defs.ClusterMember{Name: "c", NodeID: "self", Host: "127.0.0.1", Port: 1, Scheme: "http", JoinedAt: "2026-01-01T00:00:00Z", LastSeen: "2026-01-01T00:00:00Z", State: ActiveState}); err != nil {
		panic(err)
	}
	for i := 0; i < n; i++ {
		i := i
		srv := httptest.NewServer(http.HandlerFunc(func(w http.ResponseWriter, r *http.Request) {
			mu.Lock()
			got[i]++
			mu.Unlock()
			if fails[i] {
				w.WriteHeader(http.StatusInternalServerError)
				return
			}
			w.WriteHeader(http.StatusOK)
		}))
		defer srv.Close()
		u, _ := url.Parse(srv.URL)
		port, _ := strconv.Atoi(u.Port())
		stamp := fmt.Sprintf("2026-01-01T00:00:%02dZ", i+1)
		m := defs.ClusterMember{Name: "c", NodeID: fmt.Sprintf("n%d", i+1), Host: u.Hostname(), Port: port, Scheme: "http", JoinedAt: stamp, LastSeen: stamp, State: ActiveState}
		if err := upsertMember(db, m); err != nil {
			panic(err)
		}
	}
	if listFails {
		db.Close() // the membership query now fails
	}
	BroadcastCacheFlush(caches.UserCache)
	total := 0
	for _, g := range got {
		total += g
	}
	if listFails {
		sym.Assert(total == 0, "flushes were sent although the peer list could not be read")
		return
	}
	sym.Assert(total == n, "the number of flush messages is not the number of active peers")
	for _, g := range got {
		sym.Assert(g == 1, "a peer was skipped or flushed twice")
	}
}

// c29NativeReceiver: the real FlushCacheHandler on a real request (real cluster
// token check, real JSON decoding, real response writer).
func c29NativeReceiver() {
	ids := []int{caches.UserCache, caches.TokenCache, caches.DSNCache, caches.OAuthCodeCache, caches.OAuthRefreshCache, caches.OAuthJWTCache}
	id := ids[sym.Choice("cache", len(ids))]
	tokenValid, decodeFails := sym.Bool("tokenValid"), sym.Bool("decodeFails")
	hops := int(sym.Int8("hops"))
	savedName, savedDB, savedID := ClusterName, systemDB, NodeID
	ClusterName, systemDB, NodeID = "c", nil, "self" // no membership table: a re-broadcast would have nobody to go to, and is counted by OnPurge
	defer func() { ClusterName, systemDB, NodeID = savedName, savedDB, savedID }()
	for _, c := range ids {
		caches.PurgeLocal(c)
		caches.Add(c, "k", "v")
	}
	purged := 0
	var mu sync.Mutex
	caches.OnPurge = func(int) { mu.Lock(); purged++; mu.Unlock() }
	defer func() { caches.OnPurge = nil }()
	body := fmt.Sprintf(`{"cache_id":%d,"sender_id":"n9","hops":%d}`, id, hops)
	if decodeFails {
		body = "{not json"
	}
	r := httptest.NewRequest(http.MethodPost, "/services/cluster/flush", strings.NewReader(body))
	if tokenValid {
		r.Header.Set("Authorization", ClusterAuthHeader())
	} else {
		r.Header.Set("Authorization", "Bearer cluster-0000")
	}
	w := httptest.NewRecorder()
	st := FlushCacheHandler(&router.Session{ID: 1, Language: "en"}, w, r)
	sym.Observe("statusClass", st/100)
	sym.Observe("cacheKept", caches.Size(id))
	mu.Lock()
	n := purged
	mu.Unlock()
	sym.Assert(n == 0, "a received flush fired the purge notification (which broadcasts)")
	if tokenValid && !decodeFails {
		sym.Assert(st == http.StatusOK, "a valid flush request was not answered with success")
		if hops <= maxFlushHops {
			sym.Assert(caches.Size(id) == 0, "a valid flush request did not discard the named cache")
		}
		for _, c := range ids {
			if c != id {
				sym.Assert(caches.Size(c) == 1, "a flush request discarded another cache")
			}
		}
	} else {
		for _, c := range ids {
			sym.Assert(caches.Size(c) == 1, "an unauthenticated or undecodable flush request discarded a cache")
		}
	}
}
