package main

//verif:dir tools/langlint
//verif:stub os.CreateTemp = c36CreateTemp
//verif:stub (*os.File).Write = c36Write
//verif:stub (*os.File).Close = c36Close
//verif:stub (*os.File).Name = c36Name
//verif:stub os.Stat = c36Stat
//verif:stub os.Chmod = c36Chmod
//verif:stub os.Rename = c36Rename
//verif:stub os.Remove = c36Remove
//verif:stub path/filepath.Glob = c36Glob
//verif:stub path/filepath.EvalSymlinks = c36EvalSymlinks
//verif:bound one rewriteFile call with a symbolic crash point before any of its file-system operations and an arbitrary error outcome of each operation; then (history harness, with the message file optionally reached through a symbolic link into another directory) a second, undisturbed call
//verif:assume file-system model: a directory is a map name -> content; rename is atomic and replaces its target; write to the temporary file is all-or-nothing (partial writes of the temporary file never concern the target path); a crash happens between operations
//verif:outside power-loss semantics (fsync, directory entry durability), concurrent langlint processes

import (
	"errors"
	"os"
	"os/exec"
	"path/filepath"
	"strconv"
	"strings"

	sym "github.com/tucats/ego/internal/zzverif/sym"
)

// ---- model file system (used only under the symbolic engine)

type c36Crash struct{}

var (
	c36FS      map[string]string
	c36Count   map[string]int
	c36CrashAt string // the process dies on entry to this operation ("Rename2" = second Rename); "" = never
	c36Faults  bool
	c36TmpSeq  int
	c36Files   map[*os.File]string
)

// crash points of the two-run history harness: the ones that can also be
// placed exactly in the real process from outside (strace counts renames and
// unlinks), so that every counterexample can be replayed natively.
var c36HistoryPoints = []string{"Rename1", "Rename2", "Remove1"}

// the crash points a run can be given
var c36Points = []string{"", "Glob1", "CreateTemp1", "Write1", "Close1", "Stat1", "Chmod1", "Rename1", "Rename2", "Remove1", "Remove2"}

var errC36 = errors.New("injected file-system error")

// c36Op is called on entry to every modelled file-system operation.
func c36Op(name string) error {
	c36Count[name]++
	if name+strconv.Itoa(c36Count[name]) == c36CrashAt {
		panic(c36Crash{})
	}
	if c36Faults && sym.Bool("fail."+name) {
		return errC36
	}
	return nil
}

func c36CreateTemp(dir, pattern string) (*os.File, error) {
	if err := c36Op("CreateTemp"); err != nil {
		return nil, err
	}
	c36TmpSeq++
	name := filepath.Join(dir, strings.Replace(pattern, "*", "tmp"+strconv.Itoa(c36TmpSeq), 1))
	c36FS[name] = ""
	f := new(os.File)
	c36Files[f] = name
	return f, nil
}

func c36Write(f *os.File, b []byte) (int, error) {
	if err := c36Op("Write"); err != nil {
		return 0, err
	}
	c36FS[c36Files[f]] += string(b)
	return len(b), nil
}

func c36Close(f *os.File) error  { return c36Op("Close") }
func c36Name(f *os.File) string  { return c36Files[f] }
func c36Chmod(name string, mode os.FileMode) error { return c36Op("Chmod") }

func c36Stat(name string) (os.FileInfo, error) {
	if err := c36Op("Stat"); err != nil {
		return nil, err
	}
	return nil, errC36 // the mode copy is not part of the property; skip it
}

func c36Rename(from, to string) error {
	if err := c36Op("Rename"); err != nil {
		return err
	}
	v, ok := c36FS[from]
	if !ok {
		return errC36
	}
	delete(c36FS, from)
	c36FS[to] = v
	if to == c36Path {
		c36LinkTarget = "" // a rename onto a symbolic link replaces the link itself
	}
	return nil
}

// c36Glob supports the one pattern shape rewriteFile may use: <prefix>*
func c36Glob(pattern string) ([]string, error) {
	if err := c36Op("Glob"); err != nil {
		return nil, err
	}
	prefix := strings.TrimSuffix(pattern, "*")
	var out []string
	for name := range c36FS {
		if strings.HasPrefix(name, prefix) && name != prefix {
			out = append(out, name)
		}
	}
	return out, nil
}

func c36Remove(name string) error {
	if err := c36Op("Remove"); err != nil {
		return err
	}
	if _, ok := c36FS[name]; !ok {
		return errC36
	}
	delete(c36FS, name)
	return nil
}

// c36LinkTarget: when non-empty, c36Path is a symbolic link to this file (in
// another directory); the link is an entry of its own, replaced by a rename
// onto it, followed by reads.
var c36LinkTarget string

const c36Target = "/s/catalog_en.txt"

func c36EvalSymlinks(p string) (string, error) {
	if p == c36Path && c36LinkTarget != "" {
		return c36LinkTarget, nil
	}
	return p, nil
}

// c36Read: the content a reader of c36Path sees.
func c36Read() (string, bool) {
	if c36LinkTarget != "" {
		v, ok := c36FS[c36LinkTarget]
		return v, ok
	}
	v, ok := c36FS[c36Path]
	return v, ok
}

// c36Extras counts files other than the message file (and, while the path is
// a link, its target).
func c36Extras() int {
	n := 0
	for name := range c36FS {
		if name != c36Path && name != c36Target {
			n++
		}
	}
	return n
}

const (
	c36Path = "/d/messages_en.txt"
	c36Old  = "b=2\na=1\n"
	c36New  = "a=1\nb=2\n"
)

// c36Run runs rewriteFile in the model; crashed reports a simulated process death.
func c36Run(crashAt string, faults bool) (err error, crashed bool) {
	c36Count, c36CrashAt, c36Faults = map[string]int{}, crashAt, faults
	defer func() {
		if r := recover(); r != nil {
			if _, ok := r.(c36Crash); ok {
				crashed = true
				return
			}
			panic(r)
		}
	}()
	return rewriteFile(c36Path, []byte(c36New)), false
}

// VerifC36_crashLeavesOldOrNew: wherever the process dies, and whichever
// operations fail, the path holds the complete old or the complete new content.
func VerifC36_crashLeavesOldOrNew() {
	if !sym.Symbolic() {
		c36Native()
		return
	}
	c36FS = map[string]string{c36Path: c36Old}
	c36LinkTarget = ""
	c36Files = map[*os.File]string{}
	c36TmpSeq = 0
	crashAt := c36Points[sym.Choice("crashAt", len(c36Points))]
	sym.Known("C36-path-missing-between-renames", crashAt == "Rename2")
	err, crashed := c36Run(crashAt, true)
	sym.Reach("returned-or-crashed")
	content, exists := c36FS[c36Path]
	if crashed {
		sym.Reach("crashed")
		sym.Assert(exists && (content == c36Old || content == c36New), "after a crash the path holds neither the complete original nor the complete new content")
		return
	}
	if err == nil {
		sym.Reach("succeeded")
		sym.Assert(exists && content == c36New, "rewriteFile reported success but the path does not hold the new content")
		sym.Assert(len(c36FS) == 1, "a successful rewrite left a temporary or backup file behind")
	}
}

// VerifC36_laterRunCleansUp: a run that dies anywhere, followed by an
// undisturbed successful run, leaves only the target file in the directory.
func VerifC36_laterRunCleansUp() {
	if !sym.Symbolic() {
		c36NativeHistory()
		return
	}
	c36FS = map[string]string{c36Path: c36Old}
	c36LinkTarget = ""
	if sym.Bool("throughSymlink") {
		// the message file is reached through a symbolic link into another directory
		c36FS = map[string]string{c36Target: c36Old}
		c36LinkTarget = c36Target
	}
	c36Files = map[*os.File]string{}
	c36TmpSeq = 0
	crashAt := c36HistoryPoints[sym.Choice("crashAt", len(c36HistoryPoints))]
	_, crashed := c36Run(crashAt, false)
	sym.Assume(crashed)
	if _, ok := c36Read(); !ok {
		return // the first harness reports this state
	}
	sym.Known("C36-stale-temporary-after-crash", crashAt == "Rename1")
	err, _ := c36Run("", false)
	sym.Reach("second-run")
	sym.Assert(err == nil, "the later undisturbed run failed")
	content, ok := c36Read()
	sym.Assert(ok && content == c36New, "after a crashed run and a later successful run the path does not hold the new content")
	sym.Assert(c36Extras() == 0, "after a crashed run and a later successful run a temporary or backup file remains")
}

// ---- native replay: the real code, killed by SIGKILL on entry to a rename.
//
// Only crash points that fall on a rename/unlink can be placed exactly from
// outside the process (strace counts those syscalls); they are the ones the
// property is about. Other crash points report "not reproducible natively".
func c36Child() {
	if p := os.Getenv("VERIF_C36_CHILD"); p != "" {
		_ = rewriteFile(p, []byte(c36New))
		os.Exit(0)
	}
}

// c36KillOnRename runs the real rewriteFile in a child process that is killed
// on entry to its when-th rename (when=0: not killed). harness names the
// harness function the child re-enters.
func c36KillOnRename(path, harness string, when int) { c36KillOn(path, harness, "rename,renameat,renameat2", when) }

func c36KillOn(path, harness, syscalls string, when int) {
	vec, _ := os.CreateTemp("", "c36vec-*.json")
	vec.WriteString(`{"runs":[{"harness":"` + harness + `","inputs":{}}]}`)
	vec.Close()
	defer os.Remove(vec.Name())
	args := []string{"-f", "-o", "/dev/null", "-e", "trace=" + syscalls}
	if when > 0 {
		args = append(args, "-e", "inject="+syscalls+":signal=SIGKILL:when="+strconv.Itoa(when))
	}
	args = append(args, os.Args[0], "-test.run=^TestVerifReplay$")
	cmd := exec.Command("strace", args...)
	cmd.Env = append(os.Environ(), "VERIF_C36_CHILD="+path, "VERIF_REPLAY="+vec.Name())
	_ = cmd.Run()
}

func c36RenameIndex(point string) int {
	switch point {
	case "Rename1":
		return 1
	case "Rename2":
		return 2
	}
	return 0
}

func c36Native() {
	c36Child()
	when := c36RenameIndex(c36Points[sym.Choice("crashAt", len(c36Points))])
	sym.Assume(when > 0)
	dir, err := os.MkdirTemp("", "c36-")
	if err != nil {
		panic(err)
	}
	defer os.RemoveAll(dir)
	path := filepath.Join(dir, "messages_en.txt")
	os.WriteFile(path, []byte(c36Old), 0o644)
	c36KillOnRename(path, "VerifC36_crashLeavesOldOrNew", when)
	b, rerr := os.ReadFile(path)
	sym.Assert(rerr == nil && (string(b) == c36Old || string(b) == c36New), "after SIGKILL on entry to a rename the path holds neither the complete original nor the complete new content")
}

func c36NativeHistory() {
	c36Child()
	viaLink := sym.Bool("throughSymlink")
	point := c36HistoryPoints[sym.Choice("crashAt", len(c36HistoryPoints))]
	dir, err := os.MkdirTemp("", "c36-")
	if err != nil {
		panic(err)
	}
	defer os.RemoveAll(dir)
	os.MkdirAll(filepath.Join(dir, "d"), 0o755)
	os.MkdirAll(filepath.Join(dir, "s"), 0o755)
	path := filepath.Join(dir, "d", "messages_en.txt")
	if viaLink {
		target := filepath.Join(dir, "s", "catalog_en.txt")
		os.WriteFile(target, []byte(c36Old), 0o644)
		os.Symlink(target, path)
	} else {
		os.WriteFile(path, []byte(c36Old), 0o644)
	}
	if when := c36RenameIndex(point); when > 0 {
		c36KillOnRename(path, "VerifC36_laterRunCleansUp", when)
	} else {
		c36KillOn(path, "VerifC36_laterRunCleansUp", "unlink,unlinkat", 1)
	}
	if _, err := os.Stat(path); err != nil {
		sym.Assume(false) // the path is gone: the other harness reports that state
	}
	c36KillOnRename(path, "VerifC36_laterRunCleansUp", 0)
	b, rerr := os.ReadFile(path)
	sym.Assert(rerr == nil && string(b) == c36New, "after a crashed run and a later successful run the path does not hold the new content")
	extras := 0
	for _, sub := range []string{"d", "s"} {
		ents, _ := os.ReadDir(filepath.Join(dir, sub))
		for _, e := range ents {
			if e.Name() != "messages_en.txt" && e.Name() != "catalog_en.txt" {
				extras++
			}
		}
	}
	sym.Assert(extras == 0, "after a killed run and a later successful run a temporary or backup file remains")
}
