package caches

//verif:dir internal/caches
//verif:dropgo github.com/tucats/ego/internal/caches.expire
//verif:stub github.com/tucats/ego/internal/cli/settings.GetInt = c28GetInt
//verif:bound histories of 4 (quick) / 5 (thorough) operations from {Add, Find, Delete, Purge, SetExpiration("30s"), sweep, let time pass} over 2 keys of one cache, stored values arbitrary 8-bit integers, cache limit 1, the clock arbitrary and non-decreasing between operations
//verif:assume the background sweeper goroutine is replaced by explicit sweepExpired calls at arbitrary points of the history (the harness operation "sweep"); single-threaded histories
//verif:outside concurrent histories (the engine's scheduler covers lock-granularity interleavings, not used for this check yet); cluster notification (OnPurge)

import (
	"time"

	sym "github.com/tucats/ego/internal/zzverif/sym"
)

const c28ID = TokenCache

func c28GetInt(key string) int { return 1 }

type c28Entry struct {
	present bool
	value   int8
	expires time.Time
	maybe   bool // an Add for this key was dropped because the cache was full: absence is acceptable
}

var (
	c28Last    time.Time
	c28Evicted map[string][]int8
)

// c28Tick lets an arbitrary amount of time pass (see the C24 harness for the
// native time-translation trick).
func c28Tick() time.Time {
	t := sym.Clock()
	if !sym.Symbolic() {
		if !c28Last.IsZero() {
			d := t.Sub(c28Last)
			for _, c := range cacheList {
				for k, it := range c.Items {
					it.Expires = it.Expires.Add(-d)
					c.Items[k] = it
				}
			}
		}
		c28Last = t
	}
	return t
}

func VerifC28_expiringBoundedMap() {
	steps := 4
	if sym.Thorough() {
		steps = 5
	}
	sym.Bound("operations", steps)
	cacheLock.Lock()
	cacheList = map[int]Cache{}
	expirationThreadRunning = map[int]bool{}
	active = true
	MaxCacheSize = 1
	cacheLock.Unlock()
	// start from the package defaults whatever an earlier history configured
	_ = SetExpiration(c28ID, "60s")
	PurgeLocal(c28ID)
	c28Last = time.Time{}
	c28Evicted = map[string][]int8{}
	SetOnEvict(func(id int, key any, value any) {
		k := key.(string)
		c28Evicted[k] = append(c28Evicted[k], value.(int8))
	})
	defer SetOnEvict(nil)

	keys := []string{"k1", "k2"}
	ref := map[string]*c28Entry{"k1": {}, "k2": {}}
	wantEvicted := map[string]int{}
	lifetime := 60 * time.Second // the package default
	now := c28Tick()
	refSize := func() int {
		n := 0
		for _, e := range ref {
			if e.present {
				n++
			}
		}
		return n
	}
	for i := 0; i < steps; i++ {
		op := sym.Choice("op", 7)
		key := keys[sym.Choice("key", 2)]
		e := ref[key]
		switch op {
		case 0: // Add
			v := sym.Int8("value")
			Add(c28ID, key, v)
			was := e.present
			e.present = false
			if refSize() >= 1 {
				// full: the new value is dropped (and the old one is gone)
				e.maybe = true
				_ = was
			} else {
				e.present, e.value, e.expires, e.maybe = true, v, now.Add(lifetime), false
			}
		case 1: // Find
			got, found := Find(c28ID, key)
			if found {
				sym.Assert(e.present, "Find returned a value for a key that was deleted, purged or swept")
				if e.present {
					sym.Assert(got.(int8) == e.value, "Find returned a value other than the one most recently stored")
					e.expires = now.Add(lifetime)
				}
			} else {
				sym.Assert(!e.present || e.maybe, "Find lost a value that was stored and neither deleted, purged nor expired")
			}
		case 2: // Delete
			deleted := Delete(c28ID, key)
			sym.Assert(deleted == e.present || e.maybe, "Delete's result does not say whether an entry was removed")
			if e.present {
				wantEvicted[key]++
			}
			e.present = false
		case 3: // Purge
			PurgeLocal(c28ID)
			for _, x := range ref {
				x.present = false
			}
		case 4: // SetExpiration
			sym.Assert(SetExpiration(c28ID, "30s") == nil, "SetExpiration failed")
			lifetime = 30 * time.Second
		case 5: // the sweeper runs
			sweepExpired(c28ID)
			for k, x := range ref {
				if x.present && now.After(x.expires) {
					x.present = false
					wantEvicted[k]++
				}
			}
		case 6: // time passes
			now = c28Tick()
		}
		sym.Assert(Size(c28ID) <= 1, "the cache holds more entries than its limit")
		if c, ok := cacheList[c28ID]; ok {
			sym.Known("C28-purge-forgets-configured-lifetime", true)
			sym.Assert(c.Expiration == lifetime, "the cache's configured lifetime is not the one last set (lost by a purge)")
		}
	}
	sym.Reach("history-done")
	for _, k := range keys {
		sym.Assert(len(c28Evicted[k]) == wantEvicted[k], "the eviction listener was not called exactly once per entry removed by Delete or by the sweeper")
	}
}

