package dsns

//verif:dir internal/server/dsns
//verif:stub encoding/json.Unmarshal = c40Unmarshal
//verif:stub github.com/tucats/ego/internal/util.ErrorResponse = c40ErrorResponse
//verif:stub github.com/tucats/ego/internal/util.WriteJSON = c40WriteJSON
//verif:stub github.com/tucats/ego/internal/util.MakeServerInfo = c40ServerInfo
//verif:stub github.com/tucats/ego/internal/i18n.Text = c40Text
//verif:stub github.com/tucats/ego/internal/i18n.T = c40T
//verif:bound DSNPermissionsHandler (POST /dsns/@permissions, a route without payload validation) on a request of one item whose dsn and user are present or empty and whose actions are 0..2 arbitrary strings of 0..2 bytes over {+ - a r space}, by an administrator or not, with or without DSN-administrator authority
//verif:assume under the engine the JSON decoder is replaced by the decoded request (the native twin sends the real JSON body through the real decoder); the DSN store is a stand-in that knows the DSN

import (
	"bytes"
	"encoding/json"
	"errors"
	"io"
	"net/http"

	"github.com/tucats/ego/internal/defs"
	egodsns "github.com/tucats/ego/internal/dsns"
	"github.com/tucats/ego/internal/router"
	"github.com/tucats/ego/internal/util"
	sym "github.com/tucats/ego/internal/zzverif/sym"
)

// the bytes an action string is made of in this harness
var c40Alphabet = func() (t [256]bool) {
	for _, c := range []byte("+-ar ") {
		t[c] = true
	}
	return
}()

var (
	c40Request defs.DSNPermissionsRequest
	c40DSNAuth bool
)

func c40Unmarshal(data []byte, v any) error {
	switch p := v.(type) {
	case *defs.DSNPermissionsRequest:
		*p = c40Request
		return nil
	case *defs.DSNPermissionItem:
		if len(c40Request.Items) > 0 {
			*p = c40Request.Items[0]
		}
		return nil
	}
	return errors.New("unexpected decode target")
}
func c40ErrorResponse(w http.ResponseWriter, id int, msg string, status int) int { return status }
func c40WriteJSON(w http.ResponseWriter, info util.ResponseInfo, status int, body any) []byte {
	return nil
}
func c40ServerInfo(id int) defs.ServerInfo                    { return defs.ServerInfo{} }
func c40Text(lang, key string, args ...map[string]any) string { return key }
func c40T(key string, args ...map[string]any) string          { return key }

type c40DSNs struct{}

func (c40DSNs) AuthDSN(session int, user, dsn string, action egodsns.DSNAction) bool {
	return c40DSNAuth
}
func (c40DSNs) ReadDSN(session int, user, name string, doNotLog bool) (defs.DSN, error) {
	return defs.DSN{Name: name}, nil
}
func (c40DSNs) WriteDSN(session int, user string, d defs.DSN) error { return nil }
func (c40DSNs) DeleteDSN(session int, user, name string) error      { return nil }
func (c40DSNs) ListDSNS(session int, user string) (map[string]defs.DSN, error) {
	return nil, nil
}
func (c40DSNs) GrantDSN(session int, user, name string, action egodsns.DSNAction, grant bool) error {
	return nil
}
func (c40DSNs) Permissions(session int, user, name string) (map[string]egodsns.DSNAction, error) {
	return nil, nil
}
func (c40DSNs) RevokeAllDSN(session int, name string) error { return nil }
func (c40DSNs) Flush() error                                 { return nil }
func (c40DSNs) Close() error                                 { return nil }

type c40Writer struct{ h http.Header }

func (w *c40Writer) Header() http.Header         { return w.h }
func (w *c40Writer) Write(b []byte) (int, error) { return len(b), nil }
func (w *c40Writer) WriteHeader(status int)      {}

// VerifC40_dsnPermissionsRequestNeverPanics: no assertion beyond reaching the
// end: a Go panic in the handler is the violation.
func VerifC40_dsnPermissionsRequestNeverPanics() {
	item := defs.DSNPermissionItem{}
	if sym.Bool("hasDSN") {
		item.DSN = "d"
	}
	if sym.Bool("hasUser") {
		item.User = "x"
	}
	n := sym.Choice("actions", 3)
	for i := 0; i < n; i++ {
		a := sym.String("action", 2)
		for k := 0; k < len(a); k++ {
			sym.Assume(c40Alphabet[a[k]])
		}
		item.Actions = append(item.Actions, a)
	}
	c40Request = defs.DSNPermissionsRequest{Items: []defs.DSNPermissionItem{item}}
	c40DSNAuth = sym.Bool("dsnAdminGrant")
	saved := egodsns.DSNService
	egodsns.DSNService = c40DSNs{}
	defer func() { egodsns.DSNService = saved }()
	session := &router.Session{ID: 1, User: "u", Admin: sym.Bool("administrator"), Permissions: []string{defs.LogonPermission}}

	// the real wire format, for the native twin
	body := []byte("{}")
	if !sym.Symbolic() {
		body, _ = json.Marshal(c40Request)
	}
	r := &http.Request{Method: http.MethodPost, Header: http.Header{}, Body: io.NopCloser(bytes.NewReader(body))}
	status := DSNPermissionsHandler(session, &c40Writer{h: http.Header{}}, r)
	sym.Reach("answered")
	sym.Observe("statusClass", status/100)
}
