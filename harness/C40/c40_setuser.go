package auth

//verif:dir internal/server/auth
//verif:stub golang.org/x/crypto/bcrypt.GenerateFromPassword = c40BcryptGenerate
//verif:bound auth.SetUser (the kernel of POST /admin/users) for a new or an existing user with a password of 70 fixed bytes followed by 0..3 arbitrary ones (around bcrypt's 72-byte limit) or no password at all
//verif:assume bcrypt hashing is replaced by its documented contract (refuses more than 72 bytes); the user store is in memory

import (
	"errors"
	"strings"

	"github.com/tucats/ego/internal/defs"
	"github.com/tucats/ego/internal/language/data"
	"github.com/tucats/ego/internal/language/symbols"
	sym "github.com/tucats/ego/internal/zzverif/sym"
)

func c40BcryptGenerate(password []byte, cost int) ([]byte, error) {
	if len(password) > 72 {
		return nil, errors.New("bcrypt: password length exceeds 72 bytes")
	}
	return []byte("$2a$" + string(password)), nil
}

type c40Store struct {
	user   defs.User
	exists bool
}

func (s *c40Store) ReadUser(session int, name string, doNotLog bool) (defs.User, error) {
	if s.exists && name == s.user.Name {
		return s.user, nil
	}
	return defs.User{}, errors.New("no such user")
}
func (s *c40Store) WriteUser(session int, u defs.User) error     { s.user, s.exists = u, true; return nil }
func (s *c40Store) DeleteUser(session int, name string) error    { return nil }
func (s *c40Store) ListUsers(suppress bool) map[string]defs.User { return nil }
func (s *c40Store) Flush() error                                 { return nil }
func (s *c40Store) Close() error                                 { return nil }

// VerifC40_createUserNeverPanics: no assertion beyond reaching the end.
func VerifC40_createUserNeverPanics() {
	store := &c40Store{}
	if sym.Bool("userExists") {
		store.exists, store.user = true, defs.User{Name: "bob", Permissions: []string{defs.LogonPermission}}
	}
	saved := AuthService
	AuthService = store
	defer func() { AuthService = saved }()
	m := map[string]any{"name": "Bob"}
	if sym.Bool("hasPassword") {
		m["password"] = strings.Repeat("x", 70) + sym.String("passwordTail", 3)
	}
	if sym.Bool("hasPermissions") {
		m["permissions"] = []any{"ego.logon", "."}
	}
	table := symbols.NewSymbolTable("verif")
	table.SetAlways(defs.SessionVariable, 1)
	_, err := SetUser(table, data.NewList(data.NewMapFromMap(m)))
	sym.Reach("answered")
	sym.Observe("failed", err != nil)
}
