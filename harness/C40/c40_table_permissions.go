package tables

//verif:dir internal/server/tables
//verif:stub github.com/tucats/ego/internal/server/tables.initPermissions = c40InitPermissions
//verif:stub github.com/tucats/ego/internal/server/tables.ReadPermissions = c40ReadPermissions
//verif:stub (*github.com/tucats/ego/internal/resources.ResHandle).Read = c40Read
//verif:stub (*github.com/tucats/ego/internal/resources.ResHandle).Insert = c40Insert
//verif:stub (*github.com/tucats/ego/internal/resources.ResHandle).Update = c40Update
//verif:stub (github.com/tucats/ego/internal/resources.ResHandle).Equals = c40Equals
//verif:stub (*encoding/json.Decoder).Decode = c40Decode
//verif:stub github.com/tucats/ego/internal/util.ErrorResponse = c40ErrorResponse
//verif:stub github.com/tucats/ego/internal/i18n.Text = c40Text
//verif:stub github.com/tucats/ego/internal/i18n.T = c40T
//verif:bound GrantPermissions (PUT table permissions) by an administrator with a body of 0..2 permission strings, each an arbitrary string of 0..2 bytes over {+ - space}, "read" or "-update"; the grant for the user exists already or not
//verif:assume under the engine the JSON decoder is replaced by the decoded list and the permission store by a one-row model; the answer that re-reads the permissions (ReadPermissions) is cut off. The native twin sends the real JSON body and uses a real SQLite store.

import (
	"bytes"
	"encoding/json"
	"errors"
	"io"
	"net/http"
	"os"

	"github.com/tucats/ego/internal/resources"
	"github.com/tucats/ego/internal/router"
	sym "github.com/tucats/ego/internal/zzverif/sym"
)

var (
	c40List  []string
	c40Grant *PermissionsObject
)

func c40InitPermissions() bool { return true }
func c40ReadPermissions(session *router.Session, w http.ResponseWriter, r *http.Request) int {
	return http.StatusOK
}
func c40Equals(r resources.ResHandle, name string, value any) *resources.Filter {
	return &resources.Filter{Name: name, Value: value, Operator: "="}
}
func c40Read(r *resources.ResHandle, filters ...*resources.Filter) ([]any, error) {
	if c40Grant == nil {
		return nil, nil
	}
	return []any{c40Grant}, nil
}
func c40Insert(r *resources.ResHandle, v any) error { c40Grant = v.(*PermissionsObject); return nil }
func c40Update(r *resources.ResHandle, v any, filters ...*resources.Filter) error { return nil }
func c40Decode(dec *json.Decoder, v any) error {
	p, ok := v.(*[]string)
	if !ok {
		return errors.New("unexpected decode target")
	}
	*p = append([]string(nil), c40List...)
	return nil
}
func c40ErrorResponse(w http.ResponseWriter, id int, msg string, status int) int { return status }
func c40Text(lang, key string, args ...map[string]any) string                   { return key }
func c40T(key string, args ...map[string]any) string                            { return key }

type c40Writer struct{ h http.Header }

func (w *c40Writer) Header() http.Header         { return w.h }
func (w *c40Writer) Write(b []byte) (int, error) { return len(b), nil }
func (w *c40Writer) WriteHeader(status int)      {}

var c40PermAlphabet = func() (t [256]bool) {
	for _, c := range []byte("+- ") {
		t[c] = true
	}
	return
}()

// VerifC40_grantTablePermissionsNeverPanics: no assertion beyond reaching the end.
func VerifC40_grantTablePermissionsNeverPanics() {
	n := sym.Choice("entries", 3)
	c40List = nil
	for i := 0; i < n; i++ {
		switch sym.Choice("entry", 3) {
		case 0:
			s := sym.String("text", 2)
			for k := 0; k < len(s); k++ {
				sym.Assume(c40PermAlphabet[s[k]])
			}
			c40List = append(c40List, s)
		case 1:
			c40List = append(c40List, "read")
		default:
			c40List = append(c40List, "-update")
		}
	}
	c40Grant = nil
	if sym.Bool("grantExists") {
		c40Grant = &PermissionsObject{ID: "1", User: "bob", DSN: "d", Table: "t", Read: true}
	}
	body := []byte("[]")
	if sym.Symbolic() {
		pHandle = &resources.ResHandle{}
	} else {
		body, _ = json.Marshal(c40List)
		f, err := os.CreateTemp("", "c40-*.db")
		if err != nil {
			panic(err)
		}
		f.Close()
		defer os.Remove(f.Name())
		h, err := resources.Open(PermissionsObject{}, "table_perms", "sqlite3://"+f.Name())
		if err == nil {
			err = h.CreateIf()
		}
		if err == nil && c40Grant != nil {
			err = h.Insert(c40Grant)
		}
		if err != nil {
			panic(err)
		}
		savedH, savedV := pHandle, pValid
		pHandle, pValid = h, true
		defer func() { pHandle, pValid = savedH, savedV; h.Database.Close() }()
	}
	session := &router.Session{ID: 1, User: "admin", Admin: true, Language: "en",
		URLParts: map[string]any{"dsn": "d", "table": "t"}, Parameters: map[string][]string{"user": {"bob"}}}
	r := &http.Request{Method: http.MethodPut, Header: http.Header{}, Body: io.NopCloser(bytes.NewReader(body))}
	status := GrantPermissions(session, &c40Writer{h: http.Header{}}, r)
	sym.Reach("answered")
	sym.Observe("statusClass", status/100)
}
