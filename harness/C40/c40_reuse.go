package c40

// C40 is decided on the request-handling kernels that other properties'
// harnesses already drive with symbolic requests: the same explorations are
// run again in panic-only mode (harness assertions are ignored; a Go panic in
// the code under test is the only violation). The reach witnesses of the
// reused harnesses still guard against vacuity.

//verif:reuse C39/*.go
//verif:reuse C20/*.go
//verif:reuse C21/c21_tokens.go VerifC21_alteredTokenIsRefused VerifC21_tokensAreIndependent
//verif:reuse C17/*.go
//verif:reuse C29/*.go
//verif:reuse C19/*.go
//verif:reuse C15/c15_sql_endpoint.go
//verif:reuse C15/c15_sql_task.go
//verif:bound the inputs of the reused harnesses, as stated in their own files: AssetsHandler (arbitrary Range header and request path over a model file system), Router.ServeHTTP (route declarations and request outcomes), Session.Authenticate with altered and foreign bearer tokens, the @transaction handler (task lists, fault schedule), FlushCacheHandler (arbitrary flush requests), the JSON response minifier (arbitrary bodies), the two SQL authorizers (statement family x permissions)
//verif:outside every handler not listed; request shapes outside the reused harnesses' bounds; panics inside the code those harnesses replace by stand-ins
